//! Accumulators, known-finding matching, evidence files, VIOLATION / KNOWN-FINDING lines.
use serde::{Deserialize, Serialize};
use serde_json::{json, Value};
use std::collections::{BTreeMap, BTreeSet};
use std::io::Write;

#[derive(Clone, Copy, PartialEq, Eq, Debug)]
pub enum Tier {
    Quick,
    Thorough,
}
impl Tier {
    pub fn name(self) -> &'static str {
        match self {
            Tier::Quick => "quick",
            Tier::Thorough => "thorough",
        }
    }
    pub fn thorough(self) -> bool {
        self == Tier::Thorough
    }
}

#[derive(Serialize, Deserialize, Clone, Debug)]
pub struct Finding {
    pub what: String,
    pub case: Value,
    pub count: u64,
}

/// What one worker (shard) observed. Mergeable, serialisable.
#[derive(Serialize, Deserialize, Default, Debug)]
pub struct Acc {
    pub counters: BTreeMap<String, u64>,
    pub findings: BTreeMap<String, Finding>,
    pub samples: Vec<Value>,
    pub outcomes: BTreeSet<u64>,
    pub notes: BTreeSet<String>,
    pub caps: BTreeSet<String>,
}

pub const OUTCOME_CAP: usize = 200_000;

impl Acc {
    pub fn new() -> Acc {
        Acc::default()
    }
    pub fn count(&mut self, name: &str, n: u64) {
        if let Some(c) = self.counters.get_mut(name) {
            *c += n;
        } else {
            self.counters.insert(name.to_string(), n);
        }
    }
    pub fn max(&mut self, name: &str, n: u64) {
        let c = self.counters.entry(name.to_string()).or_insert(0);
        if *c < n {
            *c = n
        }
    }
    pub fn get(&self, name: &str) -> u64 {
        self.counters.get(name).copied().unwrap_or(0)
    }
    /// Record a violation under a finding key. The first example per key is kept (enumerations
    /// are simplest-first, so it is also a smallest one for this shard).
    pub fn violation(&mut self, key: impl Into<String>, what: impl Into<String>, case: Value) {
        let key = key.into();
        match self.findings.get_mut(&key) {
            Some(f) => f.count += 1,
            None => {
                self.findings.insert(
                    key,
                    Finding {
                        what: what.into(),
                        case,
                        count: 1,
                    },
                );
            }
        }
    }
    pub fn sample(&mut self, v: Value) {
        if self.samples.len() < 6 {
            self.samples.push(v)
        }
    }
    /// Record the hash of an observed outcome (to expose vacuity: few distinct outcomes from many
    /// executions means nothing collided).
    pub fn outcome<T: std::hash::Hash>(&mut self, t: &T) {
        if self.outcomes.len() < OUTCOME_CAP {
            use std::hash::Hasher;
            let mut h = std::collections::hash_map::DefaultHasher::new();
            t.hash(&mut h);
            self.outcomes.insert(h.finish());
        }
    }
    pub fn note(&mut self, s: impl Into<String>) {
        self.notes.insert(s.into());
    }
    pub fn cap(&mut self, s: impl Into<String>) {
        self.caps.insert(s.into());
    }
    pub fn merge(&mut self, other: Acc) {
        for (k, v) in other.counters {
            if k.starts_with("max_") {
                self.max(&k, v)
            } else {
                self.count(&k, v)
            }
        }
        for (k, f) in other.findings {
            match self.findings.get_mut(&k) {
                Some(g) => {
                    g.count += f.count;
                    // keep the smaller example (by serialised length) for readability
                    if f.case.to_string().len() < g.case.to_string().len() {
                        g.case = f.case;
                        g.what = f.what;
                    }
                }
                None => {
                    self.findings.insert(k, f);
                }
            }
        }
        for s in other.samples {
            self.sample(s)
        }
        for o in other.outcomes {
            if self.outcomes.len() < OUTCOME_CAP {
                self.outcomes.insert(o);
            }
        }
        self.notes.extend(other.notes);
        self.caps.extend(other.caps);
    }
}

/// Static description of a check, used for the evidence file.
pub struct Describe {
    pub id: &'static str,
    pub level: &'static str,
    pub rule: &'static str,
    pub assumptions: Vec<String>,
    pub engine: &'static str,
}

#[derive(Deserialize, Debug, Clone)]
pub struct KnownFinding {
    pub property: String,
    pub key: String,
    pub what: String,
}
#[derive(Deserialize, Debug, Default)]
pub struct KnownFile {
    #[serde(default)]
    pub findings: Vec<KnownFinding>,
    #[serde(default)]
    pub fixed: Vec<String>,
}

pub fn verif_dir() -> std::path::PathBuf {
    std::env::var("FV_VERIF_DIR")
        .map(std::path::PathBuf::from)
        .unwrap_or_else(|_| std::path::PathBuf::from("/verif"))
}

pub fn load_known() -> KnownFile {
    let p = verif_dir().join("known_findings.json");
    match std::fs::read_to_string(&p) {
        Ok(s) => serde_json::from_str(&s).unwrap_or_else(|e| {
            eprintln!("MACHINERY: cannot parse {}: {}", p.display(), e);
            std::process::exit(2)
        }),
        Err(_) => KnownFile::default(),
    }
}

fn sanitize(s: &str) -> String {
    let mut o: String = s
        .chars()
        .map(|c| if c.is_ascii_alphanumeric() || c == '-' || c == '.' { c } else { '_' })
        .collect();
    o.truncate(120);
    o
}

/// Write evidence, print KNOWN-FINDING / VIOLATION lines, return the process exit code.
pub fn finish(d: &Describe, tier: Tier, seed: i64, acc: Acc, wall_s: f64, exhaustive: bool) -> i32 {
    let known = load_known();
    let dir = verif_dir();
    let _ = std::fs::create_dir_all(dir.join("evidence"));
    let _ = std::fs::create_dir_all(dir.join("replays"));
    // replay files of earlier runs of this property are stale
    if let Ok(rd) = std::fs::read_dir(dir.join("replays")) {
        for e in rd.flatten() {
            if e.file_name().to_string_lossy().starts_with(&format!("{}-", d.id)) {
                let _ = std::fs::remove_file(e.path());
            }
        }
    }
    let mut new_violations = 0;
    let mut known_seen = 0;
    let mut out = std::io::stdout();
    let mut finding_summ = Vec::new();
    for (key, f) in &acc.findings {
        let listed = known
            .findings
            .iter()
            .find(|k| k.property == d.id && k.key == *key);
        if let Some(k) = listed {
            known_seen += 1;
            let _ = writeln!(
                out,
                "KNOWN-FINDING: property={} {} [{}; {} case(s) this run]",
                d.id, k.what, key, f.count
            );
            finding_summ.push(json!({"key": key, "known": true, "cases": f.count}));
        } else {
            new_violations += 1;
            let path = dir
                .join("replays")
                .join(format!("{}-{}.json", d.id, sanitize(key)));
            let body = json!({"property": d.id, "key": key, "what": f.what, "case": f.case, "cases_with_this_key": f.count});
            let _ = std::fs::write(&path, serde_json::to_string_pretty(&body).unwrap());
            let _ = writeln!(out, "  violation key={} :: {}", key, f.what);
            let _ = writeln!(out, "VIOLATION property={} replay={}", d.id, path.display());
            finding_summ.push(json!({"key": key, "known": false, "cases": f.count, "what": f.what}));
        }
    }
    let mut cov = serde_json::Map::new();
    let evaluations = acc.get("evaluations").max(1);
    let states = acc.get("states");
    let transitions = acc.get("transitions");
    cov.insert("evaluations".into(), json!(evaluations));
    cov.insert(
        "distinct_nontrivial".into(),
        json!(acc.get("nontrivial")),
    );
    cov.insert("rule".into(), json!(d.rule));
    let samples = if acc.samples.is_empty() {
        vec![json!("(no sample recorded)")]
    } else {
        acc.samples.clone()
    };
    cov.insert("samples".into(), json!(samples));
    if d.level == "model_checking" {
        cov.insert("states".into(), json!(states));
        cov.insert("transitions".into(), json!(transitions));
        cov.insert(
            "traces_validated_against_impl".into(),
            json!(acc.get("traces")),
        );
    }
    cov.insert("exhaustive".into(), json!(exhaustive && acc.caps.is_empty()));
    cov.insert("distinct_outcomes_observed".into(), json!(acc.outcomes.len()));
    cov.insert("engine".into(), json!(d.engine));
    cov.insert("caps_hit".into(), json!(acc.caps));
    cov.insert("notes".into(), json!(acc.notes));
    cov.insert("findings".into(), json!(finding_summ));
    let mut extra = serde_json::Map::new();
    for (k, v) in &acc.counters {
        if !["evaluations", "nontrivial", "states", "transitions", "traces"].contains(&k.as_str()) {
            extra.insert(k.clone(), json!(v));
        }
    }
    cov.insert("counters".into(), Value::Object(extra));
    let ev = json!({
        "property_id": d.id,
        "tier": tier.name(),
        "seed": seed,
        "level": d.level,
        "coverage": Value::Object(cov),
        "assumptions": d.assumptions,
        "wall_s": wall_s,
        "violations": new_violations,
        "known_findings_observed": known_seen,
    });
    let evp = dir.join("evidence").join(format!("{}.json", d.id));
    if let Err(e) = std::fs::write(&evp, serde_json::to_string_pretty(&ev).unwrap()) {
        eprintln!("MACHINERY: cannot write evidence {}: {}", evp.display(), e);
        return 2;
    }
    let _ = writeln!(
        out,
        "{} {}: evaluations={} states={} transitions={} outcomes={} known={} violations={} wall={:.1}s",
        d.id,
        tier.name(),
        evaluations,
        states,
        transitions,
        acc.outcomes.len(),
        known_seen,
        new_violations,
        wall_s
    );
    if new_violations > 0 {
        1
    } else {
        0
    }
}
