//! Orderly enumeration of small IL functions: all CFG shapes on n blocks with out-degree <= 2,
//! every entry, every distribution of at most k instructions drawn from an alphabet.
use falcon::il;
use serde_json::{json, Value};

/// Successors of one block.
#[derive(Clone, Debug, PartialEq, Eq, Hash)]
pub enum Succ {
    None,
    One(usize),
    /// (target when guard true, target when guard false, guard index)
    Two(usize, usize, usize),
    /// a single CONDITIONAL edge (guard index): not exhaustive
    Cond(usize, usize),
    /// three-way exclusive guards (targets for guards3[0..3])
    Three(usize, usize, usize),
}

#[derive(Clone, Debug, PartialEq, Eq, Hash)]
pub struct ProgSpec {
    pub entry: usize,
    pub exit: Option<usize>,
    pub succ: Vec<Succ>,
    /// per block: indices into the instruction alphabet
    pub blocks: Vec<Vec<usize>>,
}

/// When set, `ProgSpec::build` gives every non-empty block instruction indices starting at 1 (a leading instruction is
/// pushed and removed again, as `Block::remove_instruction` users do), so an instruction's index differs from its
/// position. Workers are single-threaded; the flag is recorded in every case's JSON.
pub static GAPPED: std::sync::atomic::AtomicBool = std::sync::atomic::AtomicBool::new(false);

#[derive(Clone)]
pub struct Alphabet {
    pub ops: Vec<il::Operation>,
    /// complementary guard pairs (true-arm condition, false-arm condition)
    pub guards: Vec<(il::Expression, il::Expression)>,
    /// three mutually exclusive, exhaustive conditions (may be empty)
    pub guards3: Vec<il::Expression>,
}

impl ProgSpec {
    pub fn n(&self) -> usize {
        self.succ.len()
    }
    pub fn build(&self, a: &Alphabet, address: u64) -> il::Function {
        let mut cfg = il::ControlFlowGraph::new();
        for _ in 0..self.n() {
            cfg.new_block().unwrap();
        }
        let mut addr = address;
        let gapped = GAPPED.load(std::sync::atomic::Ordering::Relaxed);
        for (bi, ops) in self.blocks.iter().enumerate() {
            let b = cfg.block_mut(bi).unwrap();
            if gapped && !ops.is_empty() {
                b.nop(); // removed below: instruction indices then start at 1, so index != position
            }
            for oi in ops {
                match a.ops[*oi].clone() {
                    il::Operation::Assign { dst, src } => b.assign(dst, src),
                    il::Operation::Store { index, src } => b.store(index, src),
                    il::Operation::Load { dst, index } => b.load(dst, index),
                    il::Operation::Branch { target } => b.branch(target),
                    il::Operation::Intrinsic { intrinsic } => b.intrinsic(intrinsic),
                    il::Operation::Nop { placeholder: Some(op) } => b.placeholder(*op),
                    il::Operation::Nop { .. } => b.nop(),
                }
                let last = b.instructions_mut().last_mut().unwrap();
                last.set_address(Some(addr));
                addr += 1;
            }
            if gapped && !ops.is_empty() {
                b.remove_instruction(0).unwrap();
            }
        }
        for (bi, s) in self.succ.iter().enumerate() {
            match s {
                Succ::None => {}
                Succ::One(t) => cfg.unconditional_edge(bi, *t).unwrap(),
                Succ::Two(t, f, g) => {
                    cfg.conditional_edge(bi, *t, a.guards[*g].0.clone()).unwrap();
                    cfg.conditional_edge(bi, *f, a.guards[*g].1.clone()).unwrap();
                }
                Succ::Cond(t, g) => cfg.conditional_edge(bi, *t, a.guards[*g].0.clone()).unwrap(),
                Succ::Three(x, y, z) => {
                    cfg.conditional_edge(bi, *x, a.guards3[0].clone()).unwrap();
                    cfg.conditional_edge(bi, *y, a.guards3[1].clone()).unwrap();
                    cfg.conditional_edge(bi, *z, a.guards3[2].clone()).unwrap();
                }
            }
        }
        cfg.set_entry(self.entry).unwrap();
        if let Some(x) = self.exit {
            cfg.set_exit(x).unwrap();
        }
        il::Function::new(address, cfg)
    }
    pub fn to_json(&self, a: &Alphabet) -> Value {
        let succ: Vec<Value> = self
            .succ
            .iter()
            .map(|s| match s {
                Succ::None => json!([]),
                Succ::One(t) => json!([t]),
                Succ::Two(t, f, g) => json!([t, f, g]),
                Succ::Cond(t, g) => json!(["cond", t, g]),
                Succ::Three(x, y, z) => json!(["three", x, y, z]),
            })
            .collect();
        let text: Vec<Vec<String>> = self.blocks.iter().map(|b| b.iter().map(|i| format!("{}", a.ops[*i])).collect()).collect();
        json!({"entry": self.entry, "exit": self.exit, "succ": succ, "blocks": self.blocks, "text": text, "gapped": GAPPED.load(std::sync::atomic::Ordering::Relaxed)})
    }
    pub fn from_json(v: &Value) -> ProgSpec {
        // a replayed case restores the index mode it was found in
        GAPPED.store(v["gapped"].as_bool().unwrap_or(false), std::sync::atomic::Ordering::Relaxed);
        let succ = v["succ"]
            .as_array()
            .unwrap()
            .iter()
            .map(|s| {
                let a = s.as_array().unwrap();
                let n = |i: usize| a[i].as_u64().unwrap() as usize;
                match a.len() {
                    0 => Succ::None,
                    1 => Succ::One(n(0)),
                    _ if a[0].as_str() == Some("three") => Succ::Three(n(1), n(2), n(3)),
                    _ if a[0].is_string() => Succ::Cond(n(1), n(2)),
                    _ => Succ::Two(n(0), n(1), n(2)),
                }
            })
            .collect();
        let blocks = v["blocks"]
            .as_array()
            .unwrap()
            .iter()
            .map(|b| b.as_array().unwrap().iter().map(|x| x.as_u64().unwrap() as usize).collect())
            .collect();
        ProgSpec {
            entry: v["entry"].as_u64().unwrap() as usize,
            exit: v["exit"].as_u64().map(|x| x as usize),
            succ,
            blocks,
        }
    }
}

#[derive(Clone)]
pub struct GenCfg {
    pub max_blocks: usize,
    /// total instruction budget over all blocks
    pub max_instrs: usize,
    /// per-block cap
    pub max_per_block: usize,
    pub n_ops: usize,
    pub n_guards: usize,
    pub all_entries: bool,
    /// also generate single conditional edges (non-exhaustive guards)
    pub cond_edges: bool,
    /// set exit to every block without successors (one spec per choice); otherwise exit = None
    pub with_exit: bool,
    /// also generate three-way branches (needs >= 3 blocks)
    pub three_way: bool,
}

/// All successor assignments for n blocks (unordered Two pairs: the guard pair is complementary, the
/// two orientations are generated through the guard index when n_guards includes both polarities).
pub fn shapes(n: usize, n_guards: usize, cond_edges: bool, three_way: bool) -> Vec<Vec<Succ>> {
    let mut per_block: Vec<Vec<Succ>> = Vec::new();
    for _b in 0..n {
        let mut v = vec![Succ::None];
        for t in 0..n {
            v.push(Succ::One(t));
        }
        for t in 0..n {
            for f in 0..n {
                if t < f {
                    for g in 0..n_guards {
                        v.push(Succ::Two(t, f, g));
                        v.push(Succ::Two(f, t, g));
                    }
                }
            }
        }
        if cond_edges {
            for t in 0..n {
                for g in 0..n_guards.min(1) {
                    v.push(Succ::Cond(t, g));
                }
            }
        }
        if three_way && n >= 3 {
            for x in 0..n {
                for y in 0..n {
                    for z in 0..n {
                        if x != y && y != z && x != z {
                            v.push(Succ::Three(x, y, z));
                        }
                    }
                }
            }
        }
        per_block.push(v);
    }
    let mut out: Vec<Vec<Succ>> = vec![vec![]];
    for b in 0..n {
        let mut next = Vec::new();
        for pre in &out {
            for s in &per_block[b] {
                let mut p = pre.clone();
                p.push(s.clone());
                next.push(p);
            }
        }
        out = next;
    }
    out
}

/// All ways to fill n blocks with at most `total` instructions (<= per_block each) over n_ops symbols.
pub fn fillings(n: usize, total: usize, per_block: usize, n_ops: usize) -> Vec<Vec<Vec<usize>>> {
    fn seqs(len: usize, n_ops: usize) -> Vec<Vec<usize>> {
        let mut out = vec![vec![]];
        for _ in 0..len {
            let mut next = Vec::new();
            for p in &out {
                for o in 0..n_ops {
                    let mut q = p.clone();
                    q.push(o);
                    next.push(q);
                }
            }
            out = next;
        }
        out
    }
    let mut out: Vec<(usize, Vec<Vec<usize>>)> = vec![(0, vec![])];
    for _b in 0..n {
        let mut next = Vec::new();
        for (used, pre) in &out {
            for len in 0..=per_block.min(total - used) {
                for s in seqs(len, n_ops) {
                    let mut p = pre.clone();
                    p.push(s);
                    next.push((used + len, p));
                }
            }
        }
        out = next;
    }
    // simplest first
    out.sort_by_key(|(used, _)| *used);
    out.into_iter().map(|(_, p)| p).collect()
}

/// Enumerate every program of the configuration; `f` returns false to stop.
pub fn for_each(cfg: &GenCfg, mut f: impl FnMut(u64, &ProgSpec) -> bool) {
    let mut counter = 0u64;
    for n in 1..=cfg.max_blocks {
        let shapes = shapes(n, cfg.n_guards, cfg.cond_edges, cfg.three_way);
        let fills = fillings(n, cfg.max_instrs, cfg.max_per_block, cfg.n_ops);
        for succ in &shapes {
            let entries: Vec<usize> = if cfg.all_entries { (0..n).collect() } else { vec![0] };
            for &entry in &entries {
                let exits: Vec<Option<usize>> = if cfg.with_exit {
                    let mut v: Vec<Option<usize>> = (0..n).filter(|b| succ[*b] == Succ::None).map(Some).collect();
                    if v.is_empty() {
                        v.push(None);
                    }
                    v
                } else {
                    vec![None]
                };
                for exit in exits {
                    for blocks in &fills {
                        let spec = ProgSpec { entry, exit, succ: succ.clone(), blocks: blocks.clone() };
                        if !f(counter, &spec) {
                            return;
                        }
                        counter += 1;
                    }
                }
            }
        }
    }
}
