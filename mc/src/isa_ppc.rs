//! Reference interpreter for the 32-bit PowerPC subset the lifter accepts, written from the Power ISA
//! (Book I) register-transfer descriptions. Decodes raw words by field extraction.
use std::collections::BTreeMap;

#[derive(Clone, Debug, PartialEq)]
pub struct PState {
    pub r: [u32; 32],
    pub lr: u32,
    pub ctr: u32,
    /// CR bits 0..31 in architecture order (field n = bits 4n..4n+3: LT GT EQ SO)
    pub cr: [bool; 32],
    pub ca: bool,
    pub so: bool,
    pub mem: BTreeMap<u32, u8>,
}

#[derive(Clone, Debug, PartialEq)]
pub enum POut {
    Next(u32),
    Fault(u32),
    Unmodelled,
}

fn sext16(x: u32) -> u32 {
    (x as u16) as i16 as i32 as u32
}
fn mask(mb: u32, me: u32) -> u32 {
    // bits numbered 0 (MSB) .. 31 (LSB)
    let m1 = u32::MAX >> mb;
    let m2 = u32::MAX << (31 - me);
    if mb <= me {
        m1 & m2
    } else {
        m1 | m2
    }
}

impl PState {
    fn load(&self, a: u32, n: u32) -> Result<u32, u32> {
        let mut v = 0u32;
        for i in 0..n {
            let b = self.mem.get(&a.wrapping_add(i)).cloned().ok_or(a.wrapping_add(i))?;
            v = (v << 8) | b as u32;
        }
        Ok(v)
    }
    fn store(&mut self, a: u32, n: u32, v: u32) {
        for i in 0..n {
            self.mem.insert(a.wrapping_add(i), (v >> (8 * (n - 1 - i))) as u8);
        }
    }
    fn cr0(&mut self, v: u32) {
        self.cr[0] = (v as i32) < 0;
        self.cr[1] = (v as i32) > 0;
        self.cr[2] = v == 0;
        self.cr[3] = self.so;
    }
}

pub fn step(st: &mut PState, pc: u32, w: u32) -> POut {
    let op = w >> 26;
    let rd = ((w >> 21) & 31) as usize;
    let ra = ((w >> 16) & 31) as usize;
    let rb = ((w >> 11) & 31) as usize;
    let imm = w & 0xffff;
    let rc = w & 1 == 1;
    let next = pc.wrapping_add(4);
    let base = |st: &PState| if ra == 0 { 0 } else { st.r[ra] };
    match op {
        10 | 11 => {
            // cmpli / cmpi: bit 22 (L) must be 0 on 32-bit implementations, bit 21 reserved
            if (w >> 21) & 3 != 0 {
                return POut::Unmodelled;
            }
            let f = ((w >> 23) & 7) as usize;
            let a = st.r[ra];
            let (lt, gt) = if op == 10 { (a < imm, a > imm) } else { ((a as i32) < (sext16(imm) as i32), (a as i32) > (sext16(imm) as i32)) };
            st.cr[4 * f] = lt;
            st.cr[4 * f + 1] = gt;
            st.cr[4 * f + 2] = !lt && !gt;
            st.cr[4 * f + 3] = st.so;
            POut::Next(next)
        }
        14 => {
            st.r[rd] = base(st).wrapping_add(sext16(imm));
            POut::Next(next)
        }
        15 => {
            st.r[rd] = base(st).wrapping_add(imm << 16);
            POut::Next(next)
        }
        16 => {
            // bc
            let bo = (w >> 21) & 31;
            let bi = ((w >> 16) & 31) as usize;
            let aa = w & 2 != 0;
            let lk = w & 1 != 0;
            let bd = sext16(w & 0xfffc);
            if bo & 4 == 0 {
                st.ctr = st.ctr.wrapping_sub(1);
            }
            let ctr_ok = bo & 4 != 0 || ((st.ctr != 0) ^ (bo & 2 != 0));
            let cond_ok = bo & 16 != 0 || (st.cr[bi] == (bo & 8 != 0));
            if lk {
                st.lr = next;
            }
            if ctr_ok && cond_ok {
                POut::Next(if aa { bd } else { pc.wrapping_add(bd) })
            } else {
                POut::Next(next)
            }
        }
        18 => {
            let li = {
                let x = w & 0x03ff_fffc;
                if x & 0x0200_0000 != 0 {
                    x | 0xfc00_0000
                } else {
                    x
                }
            };
            let aa = w & 2 != 0;
            if w & 1 != 0 {
                st.lr = next;
            }
            POut::Next(if aa { li } else { pc.wrapping_add(li) })
        }
        19 => {
            let xo = (w >> 1) & 0x3ff;
            let bo = (w >> 21) & 31;
            let bi = ((w >> 16) & 31) as usize;
            let lk = w & 1 != 0;
            match xo {
                16 => {
                    if bo & 4 == 0 {
                        st.ctr = st.ctr.wrapping_sub(1);
                    }
                    let ctr_ok = bo & 4 != 0 || ((st.ctr != 0) ^ (bo & 2 != 0));
                    let cond_ok = bo & 16 != 0 || (st.cr[bi] == (bo & 8 != 0));
                    let target = st.lr & !3;
                    if lk {
                        st.lr = next;
                    }
                    POut::Next(if ctr_ok && cond_ok { target } else { next })
                }
                528 => {
                    let cond_ok = bo & 16 != 0 || (st.cr[bi] == (bo & 8 != 0));
                    if bo & 4 == 0 {
                        return POut::Unmodelled; // invalid form
                    }
                    let target = st.ctr & !3;
                    if lk {
                        st.lr = next;
                    }
                    POut::Next(if cond_ok { target } else { next })
                }
                _ => POut::Unmodelled,
            }
        }
        21 => {
            let sh = (w >> 11) & 31;
            let mb = (w >> 6) & 31;
            let me = (w >> 1) & 31;
            let v = st.r[rd].rotate_left(sh) & mask(mb, me);
            st.r[ra] = v;
            if rc {
                st.cr0(v);
            }
            POut::Next(next)
        }
        24 => {
            st.r[ra] = st.r[rd] | imm;
            POut::Next(next)
        }
        31 => {
            let xo = (w >> 1) & 0x3ff;
            let oe = w & 0x400 != 0;
            match xo & 0x1ff {
                266 if xo & 0x1ff == 266 && !oe => {
                    let v = st.r[ra].wrapping_add(st.r[rb]);
                    st.r[rd] = v;
                    if rc {
                        st.cr0(v);
                    }
                    return POut::Next(next);
                }
                202 if !oe && rb == 0 => {
                    let (v, c) = st.r[ra].overflowing_add(st.ca as u32);
                    st.r[rd] = v;
                    st.ca = c;
                    if rc {
                        st.cr0(v);
                    }
                    return POut::Next(next);
                }
                40 if !oe => {
                    let v = st.r[rb].wrapping_sub(st.r[ra]);
                    st.r[rd] = v;
                    if rc {
                        st.cr0(v);
                    }
                    return POut::Next(next);
                }
                _ => {}
            }
            match xo {
                339 => {
                    let spr = ((w >> 16) & 31) | (((w >> 11) & 31) << 5);
                    match spr {
                        8 => st.r[rd] = st.lr,
                        9 => st.r[rd] = st.ctr,
                        _ => return POut::Unmodelled,
                    }
                    POut::Next(next)
                }
                467 => {
                    let spr = ((w >> 16) & 31) | (((w >> 11) & 31) << 5);
                    match spr {
                        8 => st.lr = st.r[rd],
                        9 => st.ctr = st.r[rd],
                        _ => return POut::Unmodelled,
                    }
                    POut::Next(next)
                }
                444 => {
                    let v = st.r[rd] | st.r[rb];
                    st.r[ra] = v;
                    if rc {
                        st.cr0(v);
                    }
                    POut::Next(next)
                }
                824 => {
                    let sh = (w >> 11) & 31;
                    let s = st.r[rd];
                    let v = ((s as i32) >> sh) as u32;
                    st.r[ra] = v;
                    st.ca = (s as i32) < 0 && sh > 0 && (s & ((1u32 << sh) - 1)) != 0;
                    if rc {
                        st.cr0(v);
                    }
                    POut::Next(next)
                }
                _ => POut::Unmodelled,
            }
        }
        32 | 33 | 34 | 35 => {
            let update = op & 1 == 1;
            if update && (ra == 0 || ra == rd) {
                return POut::Unmodelled; // invalid form
            }
            let ea = (if update { st.r[ra] } else { base(st) }).wrapping_add(sext16(imm));
            let n = if op >= 34 { 1 } else { 4 };
            match st.load(ea, n) {
                Ok(v) => {
                    st.r[rd] = v;
                    if update {
                        st.r[ra] = ea;
                    }
                    POut::Next(next)
                }
                Err(a) => POut::Fault(a),
            }
        }
        36 | 37 => {
            let update = op == 37;
            if update && ra == 0 {
                return POut::Unmodelled;
            }
            let ea = (if update { st.r[ra] } else { base(st) }).wrapping_add(sext16(imm));
            let v = st.r[rd];
            st.store(ea, 4, v);
            if update {
                st.r[ra] = ea;
            }
            POut::Next(next)
        }
        47 => {
            let mut ea = base(st).wrapping_add(sext16(imm));
            for r in rd..32 {
                let v = st.r[r];
                st.store(ea, 4, v);
                ea = ea.wrapping_add(4);
            }
            POut::Next(next)
        }
        _ => POut::Unmodelled,
    }
}
