//! Native x86-64 single-instruction execution: the host CPU is the oracle for C01.
//! A trampoline loads every general purpose register, RFLAGS and XMM0-15 from a static state
//! block, jumps to a code page holding the instruction under test followed by landing pads, and
//! stores everything back. Faults are caught by signal handlers that redirect to the return path.
#![allow(static_mut_refs)]
use std::arch::global_asm;

#[repr(C)]
#[derive(Clone, Copy)]
pub struct NState {
    /// rax rcx rdx rbx rsp rbp rsi rdi r8..r15
    pub gpr: [u64; 16],
    pub rflags: u64,
    pub xmm: [[u64; 2]; 16],
}

impl NState {
    pub fn zero() -> NState {
        NState { gpr: [0; 16], rflags: 0x202, xmm: [[0; 2]; 16] }
    }
}

// static storage addressed rip-relatively by the trampoline
#[no_mangle]
pub static mut FV_GUEST: NState = NState { gpr: [0; 16], rflags: 0, xmm: [[0; 2]; 16] };
#[no_mangle]
pub static mut FV_HOST_RSP: u64 = 0;
#[no_mangle]
pub static mut FV_CODE: u64 = 0;
#[no_mangle]
pub static mut FV_FAULT: u64 = 0;
#[no_mangle]
pub static mut FV_FAULT_ADDR: u64 = 0;
#[no_mangle]
pub static mut FV_FAULT_RIP: u64 = 0;
#[no_mangle]
pub static mut FV_ACTIVE: u64 = 0;

global_asm!(
    r#"
    .text
    .globl fv_enter
    .globl fv_return
    .globl fv_return_sp_done
fv_enter:
    push rbx
    push rbp
    push r12
    push r13
    push r14
    push r15
    sub rsp, 8
    mov [rip + FV_HOST_RSP], rsp
    mov qword ptr [rip + FV_ACTIVE], 1
    // flags
    push qword ptr [rip + FV_GUEST + 128]
    popfq
    movdqu xmm0, [rip + FV_GUEST + 136]
    movdqu xmm1, [rip + FV_GUEST + 152]
    movdqu xmm2, [rip + FV_GUEST + 168]
    movdqu xmm3, [rip + FV_GUEST + 184]
    movdqu xmm4, [rip + FV_GUEST + 200]
    movdqu xmm5, [rip + FV_GUEST + 216]
    movdqu xmm6, [rip + FV_GUEST + 232]
    movdqu xmm7, [rip + FV_GUEST + 248]
    movdqu xmm8, [rip + FV_GUEST + 264]
    movdqu xmm9, [rip + FV_GUEST + 280]
    movdqu xmm10, [rip + FV_GUEST + 296]
    movdqu xmm11, [rip + FV_GUEST + 312]
    movdqu xmm12, [rip + FV_GUEST + 328]
    movdqu xmm13, [rip + FV_GUEST + 344]
    movdqu xmm14, [rip + FV_GUEST + 360]
    movdqu xmm15, [rip + FV_GUEST + 376]
    mov rax, [rip + FV_GUEST + 0]
    mov rcx, [rip + FV_GUEST + 8]
    mov rdx, [rip + FV_GUEST + 16]
    mov rbx, [rip + FV_GUEST + 24]
    mov rbp, [rip + FV_GUEST + 40]
    mov rsi, [rip + FV_GUEST + 48]
    mov rdi, [rip + FV_GUEST + 56]
    mov r8,  [rip + FV_GUEST + 64]
    mov r9,  [rip + FV_GUEST + 72]
    mov r10, [rip + FV_GUEST + 80]
    mov r11, [rip + FV_GUEST + 88]
    mov r12, [rip + FV_GUEST + 96]
    mov r13, [rip + FV_GUEST + 104]
    mov r14, [rip + FV_GUEST + 112]
    mov r15, [rip + FV_GUEST + 120]
    mov rsp, [rip + FV_GUEST + 32]
    jmp qword ptr [rip + FV_CODE]
fv_return:
    mov [rip + FV_GUEST + 32], rsp
    mov rsp, [rip + FV_HOST_RSP]
fv_return_sp_done:
    mov [rip + FV_GUEST + 0], rax
    mov [rip + FV_GUEST + 8], rcx
    mov [rip + FV_GUEST + 16], rdx
    mov [rip + FV_GUEST + 24], rbx
    mov [rip + FV_GUEST + 40], rbp
    mov [rip + FV_GUEST + 48], rsi
    mov [rip + FV_GUEST + 56], rdi
    mov [rip + FV_GUEST + 64], r8
    mov [rip + FV_GUEST + 72], r9
    mov [rip + FV_GUEST + 80], r10
    mov [rip + FV_GUEST + 88], r11
    mov [rip + FV_GUEST + 96], r12
    mov [rip + FV_GUEST + 104], r13
    mov [rip + FV_GUEST + 112], r14
    mov [rip + FV_GUEST + 120], r15
    pushfq
    pop qword ptr [rip + FV_GUEST + 128]
    cld
    movdqu [rip + FV_GUEST + 136], xmm0
    movdqu [rip + FV_GUEST + 152], xmm1
    movdqu [rip + FV_GUEST + 168], xmm2
    movdqu [rip + FV_GUEST + 184], xmm3
    movdqu [rip + FV_GUEST + 200], xmm4
    movdqu [rip + FV_GUEST + 216], xmm5
    movdqu [rip + FV_GUEST + 232], xmm6
    movdqu [rip + FV_GUEST + 248], xmm7
    movdqu [rip + FV_GUEST + 264], xmm8
    movdqu [rip + FV_GUEST + 280], xmm9
    movdqu [rip + FV_GUEST + 296], xmm10
    movdqu [rip + FV_GUEST + 312], xmm11
    movdqu [rip + FV_GUEST + 328], xmm12
    movdqu [rip + FV_GUEST + 344], xmm13
    movdqu [rip + FV_GUEST + 360], xmm14
    movdqu [rip + FV_GUEST + 376], xmm15
    mov qword ptr [rip + FV_ACTIVE], 0
    add rsp, 8
    pop r15
    pop r14
    pop r13
    pop r12
    pop rbp
    pop rbx
    ret
"#
);

extern "C" {
    fn fv_enter();
    fn fv_return();
    fn fv_return_sp_done();
}

/// Layout of the fixed mapping.
pub const MAP_BASE: u64 = 0x2000_0000;
pub const MAP_SIZE: usize = 0x20000;
/// Page A (read/write/execute): the instruction under test occupies its LAST bytes, everything before is int3.
pub const CODE_OFF: u64 = 0x1000;
/// Page B (read/execute only, written once): the landing pads. The instruction under test ends exactly where this
/// page starts, so whatever it stores rip-relatively can only hit its own (already executed) bytes or fault; the
/// code that runs after it can never be rewritten by it.
pub const PADS_OFF: u64 = 0x2000;
/// bytes of page A the checks look at (the longest instruction is 15 bytes)
pub const CODE_TAIL: usize = 16;
/// fall-through pad at PADS_OFF, branch-target pad at PADS_OFF + TARGET_PAD_DELTA
pub const TARGET_PAD_DELTA: u64 = 32;
/// bytes of page B the IL side may read (rip-relative loads)
pub const PADS_LEN: usize = 64;
pub const WIN_OFF: u64 = 0x8000; // 4 KiB scratch window for memory operands
pub const WIN_SIZE: usize = 0x1000;
pub const STACK_OFF: u64 = 0xC000; // guest stack area (4 KiB), sp starts in the middle
pub const PAD_FLAG_OFF: u64 = 0x10000; // landing pads write here which one was reached
/// Read+execute-only page holding the absolute jump back into the trampoline. The landing pads reach it with a
/// relative jump, so no host address ever sits in memory the instruction under test can write.
pub const TRAMP_OFF: u64 = 0x1f000;

/// Watchdog: a virtual-time interval timer ticks every 20 ms of CPU time; a guest run that sees two ticks is
/// considered stuck and is ended like a fault (FV_FAULT = SIGVTALRM).
#[no_mangle]
pub static mut FV_RUN_ID: u64 = 0;
static mut FV_LAST_TICK_RUN: u64 = u64::MAX;

pub struct Sandbox {
    pub base: *mut u8,
}

unsafe fn leave_guest(sig: libc::c_int, info: *mut libc::siginfo_t, uc: *mut libc::ucontext_t) {
    FV_FAULT = sig as u64;
    FV_FAULT_ADDR = if info.is_null() { 0 } else { (*info).si_addr() as u64 };
    FV_FAULT_RIP = (*uc).uc_mcontext.gregs[libc::REG_RIP as usize] as u64;
    // The guest stack pointer may be anything (e.g. `xchg [mem], rsp`); a sigreturn into a context with a
    // non-canonical rsp is fatal, so the handler itself saves the guest rsp and switches to the host stack.
    FV_GUEST.gpr[4] = (*uc).uc_mcontext.gregs[libc::REG_RSP as usize] as u64;
    (*uc).uc_mcontext.gregs[libc::REG_RSP as usize] = FV_HOST_RSP as i64;
    (*uc).uc_mcontext.gregs[libc::REG_RIP as usize] = fv_return_sp_done as usize as i64;
    // direction flag and trap flag must not leak into the handler's return path
    (*uc).uc_mcontext.gregs[libc::REG_EFL as usize] &= !(0x400 | 0x100);
}

unsafe extern "C" fn on_signal(sig: libc::c_int, info: *mut libc::siginfo_t, ctx: *mut libc::c_void) {
    let uc = ctx as *mut libc::ucontext_t;
    if FV_ACTIVE == 0 {
        // not ours: die loudly
        libc::signal(sig, libc::SIG_DFL);
        libc::raise(sig);
        return;
    }
    leave_guest(sig, info, uc);
}

unsafe extern "C" fn on_tick(sig: libc::c_int, _info: *mut libc::siginfo_t, ctx: *mut libc::c_void) {
    if FV_ACTIVE == 0 {
        return;
    }
    let rip = (*(ctx as *mut libc::ucontext_t)).uc_mcontext.gregs[libc::REG_RIP as usize] as u64;
    if !(MAP_BASE..MAP_BASE + MAP_SIZE as u64).contains(&rip) {
        return; // in the trampoline itself
    }
    if FV_LAST_TICK_RUN == FV_RUN_ID {
        leave_guest(sig, std::ptr::null_mut(), ctx as *mut libc::ucontext_t);
    } else {
        FV_LAST_TICK_RUN = FV_RUN_ID;
    }
}

impl Sandbox {
    pub fn new() -> Result<Sandbox, String> {
        unsafe {
            let p = libc::mmap(
                MAP_BASE as *mut libc::c_void,
                MAP_SIZE,
                libc::PROT_READ | libc::PROT_WRITE | libc::PROT_EXEC,
                libc::MAP_PRIVATE | libc::MAP_ANONYMOUS | libc::MAP_FIXED_NOREPLACE,
                -1,
                0,
            );
            if p == libc::MAP_FAILED || p as u64 != MAP_BASE {
                return Err("cannot map the sandbox region at 0x20000000".into());
            }
            // alternate signal stack
            let ss_size = 1 << 16;
            let ss = libc::mmap(std::ptr::null_mut(), ss_size, libc::PROT_READ | libc::PROT_WRITE, libc::MAP_PRIVATE | libc::MAP_ANONYMOUS, -1, 0);
            let st = libc::stack_t { ss_sp: ss, ss_flags: 0, ss_size };
            libc::sigaltstack(&st, std::ptr::null_mut());
            for sig in [libc::SIGSEGV, libc::SIGILL, libc::SIGFPE, libc::SIGBUS, libc::SIGTRAP] {
                let mut sa: libc::sigaction = std::mem::zeroed();
                sa.sa_sigaction = on_signal as usize;
                sa.sa_flags = libc::SA_SIGINFO | libc::SA_ONSTACK | libc::SA_NODEFER;
                libc::sigemptyset(&mut sa.sa_mask);
                libc::sigaction(sig, &sa, std::ptr::null_mut());
            }
            // watchdog tick
            {
                let mut sa: libc::sigaction = std::mem::zeroed();
                sa.sa_sigaction = on_tick as usize;
                sa.sa_flags = libc::SA_SIGINFO | libc::SA_ONSTACK | libc::SA_RESTART;
                libc::sigemptyset(&mut sa.sa_mask);
                libc::sigaction(libc::SIGVTALRM, &sa, std::ptr::null_mut());
                let tv = libc::timeval { tv_sec: 0, tv_usec: 20_000 };
                let it = libc::itimerval { it_interval: tv, it_value: tv };
                libc::setitimer(libc::ITIMER_VIRTUAL, &it, std::ptr::null_mut());
            }
            let base = p as *mut u8;
            // page A: int3
            std::ptr::write_bytes(base.add(CODE_OFF as usize), 0xcc, 0x1000);
            // page B: the two landing pads, then read+execute only
            let pads = base.add(PADS_OFF as usize);
            std::ptr::write_bytes(pads, 0xcc, 0x1000);
            let p1 = Sandbox::pad(MAP_BASE + PADS_OFF, 1);
            std::ptr::copy_nonoverlapping(p1.as_ptr(), pads, p1.len());
            let p2 = Sandbox::pad(MAP_BASE + PADS_OFF + TARGET_PAD_DELTA, 2);
            std::ptr::copy_nonoverlapping(p2.as_ptr(), pads.add(TARGET_PAD_DELTA as usize), p2.len());
            if libc::mprotect(pads as *mut libc::c_void, 0x1000, libc::PROT_READ | libc::PROT_EXEC) != 0 {
                return Err("cannot protect the landing-pad page".into());
            }
            // trampoline page
            let tramp = base.add(TRAMP_OFF as usize);
            std::ptr::write_bytes(tramp, 0xcc, 0x1000);
            let mut abs = [0u8; 14];
            abs[0] = 0xff;
            abs[1] = 0x25;
            abs[6..14].copy_from_slice(&(fv_return as usize as u64).to_le_bytes());
            std::ptr::copy_nonoverlapping(abs.as_ptr(), tramp, 14);
            if libc::mprotect(tramp as *mut libc::c_void, 0x1000, libc::PROT_READ | libc::PROT_EXEC) != 0 {
                return Err("cannot protect the trampoline page".into());
            }
            Ok(Sandbox { base })
        }
    }
    pub fn slice(&self, off: u64, len: usize) -> &mut [u8] {
        unsafe { std::slice::from_raw_parts_mut(self.base.add(off as usize), len) }
    }
    /// `jmp rel32` from sandbox address `at` to the protected trampoline page (clobbers nothing)
    pub fn jmp_back(at: u64) -> [u8; 5] {
        let rel = ((MAP_BASE + TRAMP_OFF) as i64 - (at as i64 + 5)) as i32;
        let mut b = [0xe9u8, 0, 0, 0, 0];
        b[1..5].copy_from_slice(&rel.to_le_bytes());
        b
    }
    /// landing pad: `mov byte ptr [rip+disp], id` ; jmp back   (12 bytes)
    pub fn pad(at: u64, id: u8) -> Vec<u8> {
        let flag = MAP_BASE + PAD_FLAG_OFF;
        let disp = (flag as i64 - (at as i64 + 7)) as i32;
        let mut v = vec![0xc6, 0x05];
        v.extend_from_slice(&disp.to_le_bytes());
        v.push(id);
        v.extend_from_slice(&Sandbox::jmp_back(at + 7));
        v
    }
    /// Place the instruction so that it ends where the pad page starts; returns its address.
    pub fn set_instruction(&self, bytes: &[u8]) -> u64 {
        assert!(bytes.len() <= CODE_TAIL - 1);
        let tail = self.slice(PADS_OFF - CODE_TAIL as u64, CODE_TAIL);
        for b in tail.iter_mut() {
            *b = 0xcc;
        }
        tail[CODE_TAIL - bytes.len()..].copy_from_slice(bytes);
        MAP_BASE + PADS_OFF - bytes.len() as u64
    }
    /// the last CODE_TAIL bytes of page A followed by the first PADS_LEN bytes of page B
    pub fn code_window(&self) -> Vec<u8> {
        self.slice(PADS_OFF - CODE_TAIL as u64, CODE_TAIL + PADS_LEN).to_vec()
    }
    /// Run the code at `at` from the given state. Returns (final state, fault signal or 0, fault address, fault rip).
    pub fn run_at(&self, at: u64, st: &NState) -> (NState, u64, u64, u64) {
        unsafe {
            FV_GUEST = *st;
            FV_CODE = at;
            FV_FAULT = 0;
            FV_FAULT_ADDR = 0;
            FV_FAULT_RIP = 0;
            FV_RUN_ID = FV_RUN_ID.wrapping_add(1);
            fv_enter();
            (FV_GUEST, FV_FAULT, FV_FAULT_ADDR, FV_FAULT_RIP)
        }
    }
}

/// start-up self test of the trampoline
pub fn selftest() -> Result<(), String> {
    let sb = Sandbox::new()?;
    let flag = |sb: &Sandbox| sb.slice(PAD_FLAG_OFF, 8)[0];
    let mut st = NState::zero();
    st.gpr[0] = 0xf0;
    st.gpr[3] = 0x20;
    st.gpr[4] = MAP_BASE + STACK_OFF + 0x800;
    st.gpr[12] = 0x1234_5678_9abc_def0;
    st.xmm[15] = [7, 9];
    // add al, bl with carry out, falling through into pad 1
    let at = sb.set_instruction(&[0x00, 0xd8]);
    sb.slice(PAD_FLAG_OFF, 8)[0] = 0;
    let (out, fault, _, _) = sb.run_at(at, &st);
    if fault != 0 || flag(&sb) != 1 || out.gpr[0] != 0x10 || out.rflags & 1 != 1 || out.gpr[12] != 0x1234_5678_9abc_def0 || out.xmm[15] != [7, 9] || out.gpr[4] != st.gpr[4] {
        return Err(format!("add al,bl: rax={:#x} flags={:#x} fault={} pad={}", out.gpr[0], out.rflags, fault, flag(&sb)));
    }
    // jmp +32 reaches pad 2
    let at = sb.set_instruction(&[0xeb, TARGET_PAD_DELTA as u8]);
    sb.slice(PAD_FLAG_OFF, 8)[0] = 0;
    let (_, fault, _, _) = sb.run_at(at, &st);
    if fault != 0 || flag(&sb) != 2 {
        return Err(format!("jmp +32: fault={} pad={}", fault, flag(&sb)));
    }
    // fault: mov rax, [rax] with a non-canonical pointer
    let at = sb.set_instruction(&[0x48, 0x8b, 0x00]);
    st.gpr[0] = 0x1111_1111_1111_1111;
    let (_, fault, _, _) = sb.run_at(at, &st);
    if fault != libc::SIGSEGV as u64 {
        return Err(format!("expected SIGSEGV, got {}", fault));
    }
    // and the process still works afterwards
    let at = sb.set_instruction(&[0x90]);
    let (out, fault, _, _) = sb.run_at(at, &st);
    if fault != 0 || out.gpr[0] != st.gpr[0] {
        return Err("state not preserved after a fault".into());
    }
    // a fault taken while the guest stack pointer is non-canonical: mov rsp, rax ; push rax
    let at = sb.set_instruction(&[0x48, 0x89, 0xc4, 0x50]);
    let (out, fault, _, _) = sb.run_at(at, &st);
    if fault == 0 || out.gpr[4] != 0x1111_1111_1111_1111 {
        return Err(format!("fault with a wild stack pointer: fault={} rsp={:#x}", fault, out.gpr[4]));
    }
    // a store into the pad page faults instead of rewriting the code that runs next: mov [rip+0], eax
    let at = sb.set_instruction(&[0x89, 0x05, 0x00, 0x00, 0x00, 0x00]);
    let (_, fault, addr, _) = sb.run_at(at, &st);
    if fault != libc::SIGSEGV as u64 || addr != MAP_BASE + PADS_OFF {
        return Err(format!("store into the pad page: fault={} addr={:#x}", fault, addr));
    }
    // an endless loop is ended by the watchdog: jmp -2
    let at = sb.set_instruction(&[0xeb, 0xfe]);
    let (_, fault, _, _) = sb.run_at(at, &st);
    if fault != libc::SIGVTALRM as u64 {
        return Err(format!("watchdog: fault={}", fault));
    }
    let at = sb.set_instruction(&[0x90]);
    sb.slice(PAD_FLAG_OFF, 8)[0] = 0;
    let (out, fault, _, _) = sb.run_at(at, &st);
    if fault != 0 || out.gpr[0] != st.gpr[0] || flag(&sb) != 1 {
        return Err("state not preserved after the watchdog fired".into());
    }
    unsafe {
        libc::munmap(sb.base as *mut libc::c_void, MAP_SIZE);
        let zero = libc::timeval { tv_sec: 0, tv_usec: 0 };
        let it = libc::itimerval { it_interval: zero, it_value: zero };
        libc::setitimer(libc::ITIMER_VIRTUAL, &it, std::ptr::null_mut());
    }
    Ok(())
}
