//! Reference operational semantics for falcon IL. Reads falcon's IL *data structures* but shares no
//! arithmetic or stepping code with falcon: values are `bv::Val`, memory is a byte map, successor
//! selection demands exactly one true guard.
use crate::bv::{Bin, BvErr, Val};
use falcon::il;
use std::collections::BTreeMap;

#[derive(Clone, Copy, PartialEq, Eq, Debug, Hash, PartialOrd, Ord)]
pub enum End {
    Little,
    Big,
}

pub type SKey = (String, Option<usize>);

#[derive(Clone, PartialEq, Eq, Hash, Debug, PartialOrd, Ord)]
pub struct RState {
    pub scalars: BTreeMap<SKey, Val>,
    pub mem: BTreeMap<u64, u8>,
    pub endian: End,
    /// keep SSA versions apart (C10); otherwise scalars are keyed by name only
    pub versioned: bool,
    /// read-only background memory regions (base, bytes) consulted when `mem` has no entry
    pub bg: Vec<(u64, std::sync::Arc<Vec<u8>>)>,
}

#[derive(Clone, PartialEq, Eq, Debug, Hash)]
pub enum Fault {
    UndefScalar(String),
    Unmapped(u64),
    DivZero,
    Sort(String),
    Intrinsic(String),
    NoGuard,
    AmbiguousGuard,
    AddressTooWide,
    BadLocation(String),
}

impl Fault {
    pub fn class(&self) -> &'static str {
        match self {
            Fault::UndefScalar(_) => "undefined-scalar",
            Fault::Unmapped(_) => "unmapped",
            Fault::DivZero => "div-zero",
            Fault::Sort(_) => "sort",
            Fault::Intrinsic(_) => "intrinsic",
            Fault::NoGuard => "no-guard",
            Fault::AmbiguousGuard => "ambiguous-guard",
            Fault::AddressTooWide => "address-too-wide",
            Fault::BadLocation(_) => "bad-location",
        }
    }
}

impl From<BvErr> for Fault {
    fn from(e: BvErr) -> Fault {
        match e {
            BvErr::Sort => Fault::Sort("operator".into()),
            BvErr::DivZero => Fault::DivZero,
        }
    }
}

impl RState {
    pub fn new(endian: End) -> RState {
        RState { scalars: BTreeMap::new(), mem: BTreeMap::new(), endian, versioned: false, bg: Vec::new() }
    }
    pub fn key(&self, s: &il::Scalar) -> SKey {
        (s.name().to_string(), if self.versioned { s.ssa() } else { None })
    }
    pub fn set(&mut self, name: &str, v: Val) {
        self.scalars.insert((name.to_string(), None), v);
    }
    pub fn get(&self, name: &str) -> Option<&Val> {
        self.scalars.get(&(name.to_string(), None))
    }
    pub fn read(&self, s: &il::Scalar) -> Result<Val, Fault> {
        match self.scalars.get(&self.key(s)) {
            None => Err(Fault::UndefScalar(s.name().to_string())),
            Some(v) => {
                if v.bits() != s.bits() {
                    Err(Fault::Sort(format!("scalar {} read at {} bits but holds {} bits", s.name(), s.bits(), v.bits())))
                } else {
                    Ok(v.clone())
                }
            }
        }
    }
    pub fn load(&self, addr: u64, bits: usize) -> Result<Val, Fault> {
        if bits == 0 || bits % 8 != 0 {
            return Err(Fault::Sort(format!("load of {} bits", bits)));
        }
        let n = bits / 8;
        let mut bytes = Vec::with_capacity(n);
        for i in 0..n as u64 {
            let a = addr.wrapping_add(i);
            match self.mem.get(&a) {
                Some(b) => bytes.push(*b),
                None => match self.bg.iter().find(|(base, v)| a >= *base && a - *base < v.len() as u64) {
                    Some((base, v)) => bytes.push(v[(a - *base) as usize]),
                    None => return Err(Fault::Unmapped(a)),
                },
            }
        }
        if self.endian == End::Big {
            bytes.reverse();
        }
        Ok(Val::from_bytes_le(&bytes, bits))
    }
    pub fn store(&mut self, addr: u64, v: &Val) -> Result<(), Fault> {
        let bits = v.bits();
        if bits == 0 || bits % 8 != 0 {
            return Err(Fault::Sort(format!("store of {} bits", bits)));
        }
        let mut bytes = v.to_bytes_le();
        bytes.resize(bits / 8, 0);
        if self.endian == End::Big {
            bytes.reverse();
        }
        for (i, b) in bytes.iter().enumerate() {
            self.mem.insert(addr.wrapping_add(i as u64), *b);
        }
        Ok(())
    }
}

pub fn const_val(c: &il::Constant) -> Val {
    Val::from_bytes_le(&c.value().to_bytes_le(), c.bits())
}
pub fn val_const(v: &Val) -> il::Constant {
    il::Constant::new_big(num_bigint::BigUint::from_bytes_le(&v.to_bytes_le()), v.bits())
}

pub fn eval(e: &il::Expression, s: &RState) -> Result<Val, Fault> {
    use il::Expression as E;
    let b = |op: Bin, l: &E, r: &E| -> Result<Val, Fault> { Ok(eval(l, s)?.bin(op, &eval(r, s)?)?) };
    match e {
        E::Scalar(sc) => s.read(sc),
        E::Constant(c) => Ok(const_val(c)),
        E::Add(l, r) => b(Bin::Add, l, r),
        E::Sub(l, r) => b(Bin::Sub, l, r),
        E::Mul(l, r) => b(Bin::Mul, l, r),
        E::Divu(l, r) => b(Bin::Divu, l, r),
        E::Modu(l, r) => b(Bin::Modu, l, r),
        E::Divs(l, r) => b(Bin::Divs, l, r),
        E::Mods(l, r) => b(Bin::Mods, l, r),
        E::And(l, r) => b(Bin::And, l, r),
        E::Or(l, r) => b(Bin::Or, l, r),
        E::Xor(l, r) => b(Bin::Xor, l, r),
        E::Shl(l, r) => b(Bin::Shl, l, r),
        E::Shr(l, r) => b(Bin::Shr, l, r),
        E::AShr(l, r) => b(Bin::AShr, l, r),
        E::Cmpeq(l, r) => b(Bin::Cmpeq, l, r),
        E::Cmpneq(l, r) => b(Bin::Cmpneq, l, r),
        E::Cmplts(l, r) => b(Bin::Cmplts, l, r),
        E::Cmpltu(l, r) => b(Bin::Cmpltu, l, r),
        E::Zext(n, x) => Ok(eval(x, s)?.zext(*n)?),
        E::Sext(n, x) => Ok(eval(x, s)?.sext(*n)?),
        E::Trun(n, x) => Ok(eval(x, s)?.trun(*n)?),
        E::Ite(c, t, f) => {
            let cv = eval(c, s)?;
            if cv.bits() != 1 {
                return Err(Fault::Sort("ite condition".into()));
            }
            // both arms are evaluated: a fault in the untaken arm is still a fault of the
            // expression's well-formedness (widths), but value faults (div by zero) only count
            // on the taken arm
            let (tv, fv) = (eval(t, s), eval(f, s));
            if let (Ok(a), Ok(b)) = (&tv, &fv) {
                if a.bits() != b.bits() {
                    return Err(Fault::Sort("ite arms".into()));
                }
            }
            if cv.is_one() {
                tv
            } else {
                fv
            }
        }
    }
}

/// What executing one operation did (for monitors).
#[derive(Clone, Debug, PartialEq)]
pub enum Effect {
    Assign { key: SKey, value: Val },
    Load { key: SKey, addr: u64, value: Val },
    Store { addr: u64, value: Val },
    Branch { target: u64 },
    Intrinsic,
    Nop,
}

/// How intrinsics are treated.
#[derive(Clone, Copy, PartialEq, Debug)]
pub enum IntrinsicMode {
    Fault,
    /// observation point with identity effect
    Identity,
    /// observation point; every scalar the intrinsic declares as written receives this value
    Havoc(u128),
}

pub fn exec(op: &il::Operation, s: &mut RState, im: IntrinsicMode) -> Result<Effect, Fault> {
    match op {
        il::Operation::Assign { dst, src } => {
            let v = eval(src, s)?;
            if v.bits() != dst.bits() {
                return Err(Fault::Sort(format!("assign {} bits to {}:{}", v.bits(), dst.name(), dst.bits())));
            }
            let key = s.key(dst);
            s.scalars.insert(key.clone(), v.clone());
            Ok(Effect::Assign { key, value: v })
        }
        il::Operation::Store { index, src } => {
            let v = eval(src, s)?;
            let a = eval(index, s)?.to_u64().ok_or(Fault::AddressTooWide)?;
            s.store(a, &v)?;
            Ok(Effect::Store { addr: a, value: v })
        }
        il::Operation::Load { dst, index } => {
            let a = eval(index, s)?.to_u64().ok_or(Fault::AddressTooWide)?;
            let v = s.load(a, dst.bits())?;
            let key = s.key(dst);
            s.scalars.insert(key.clone(), v.clone());
            Ok(Effect::Load { key, addr: a, value: v })
        }
        il::Operation::Branch { target } => {
            let t = eval(target, s)?.to_u64().ok_or(Fault::AddressTooWide)?;
            Ok(Effect::Branch { target: t })
        }
        il::Operation::Intrinsic { intrinsic } => match im {
            IntrinsicMode::Fault => Err(Fault::Intrinsic(intrinsic.mnemonic().to_string())),
            IntrinsicMode::Identity => Ok(Effect::Intrinsic),
            IntrinsicMode::Havoc(v) => {
                if let Some(ws) = intrinsic.written_expressions() {
                    for e in ws {
                        for sc in e.scalars() {
                            let key = s.key(sc);
                            s.scalars.insert(key, Val::new(v, sc.bits()));
                        }
                    }
                }
                Ok(Effect::Intrinsic)
            }
        },
        il::Operation::Nop { .. } => Ok(Effect::Nop),
    }
}

/// Location inside one function. Instructions are addressed by block index and *position*.
#[derive(Clone, PartialEq, Eq, Hash, Debug, PartialOrd, Ord)]
pub enum Loc {
    Instr { block: usize, pos: usize },
    Edge { head: usize, tail: usize },
    Empty { block: usize },
}

impl Loc {
    pub fn block_head(f: &il::Function, block: usize) -> Result<Loc, Fault> {
        let b = f.block(block).map_err(|_| Fault::BadLocation(format!("block {}", block)))?;
        Ok(if b.instructions().is_empty() { Loc::Empty { block } } else { Loc::Instr { block, pos: 0 } })
    }
    pub fn entry(f: &il::Function) -> Result<Loc, Fault> {
        let e = f.control_flow_graph().entry().ok_or(Fault::BadLocation("no entry".into()))?;
        Loc::block_head(f, e)
    }
    /// the corresponding falcon location value
    pub fn to_falcon(&self, f: &il::Function) -> Option<il::FunctionLocation> {
        Some(match self {
            Loc::Instr { block, pos } => il::FunctionLocation::Instruction(*block, f.block(*block).ok()?.instructions().get(*pos)?.index()),
            Loc::Edge { head, tail } => il::FunctionLocation::Edge(*head, *tail),
            Loc::Empty { block } => il::FunctionLocation::EmptyBlock(*block),
        })
    }
    pub fn instruction<'a>(&self, f: &'a il::Function) -> Option<&'a il::Instruction> {
        match self {
            Loc::Instr { block, pos } => f.block(*block).ok()?.instructions().get(*pos),
            _ => None,
        }
    }
}

#[derive(Clone, Debug, PartialEq)]
pub enum Step {
    Next(Loc, Effect),
    /// indirect branch executed; control leaves to this address
    Branch(u64),
    /// block without successors ended
    Halt(Effect),
    Fault(Fault),
}

/// Select the out-edge of `block` that is enabled in `s`: exactly one guard must evaluate to one.
pub fn select_edge(f: &il::Function, block: usize, s: &RState) -> Result<Option<Loc>, Fault> {
    let edges = f.control_flow_graph().edges_out(block).map_err(|_| Fault::BadLocation(format!("edges_out {}", block)))?;
    if edges.is_empty() {
        return Ok(None);
    }
    let mut taken: Option<Loc> = None;
    for e in edges {
        let on = match e.condition() {
            None => true,
            Some(c) => {
                let v = eval(c, s)?;
                if v.bits() != 1 {
                    return Err(Fault::Sort("edge guard is not 1 bit".into()));
                }
                v.is_one()
            }
        };
        if on {
            if taken.is_some() {
                return Err(Fault::AmbiguousGuard);
            }
            taken = Some(Loc::Edge { head: e.head(), tail: e.tail() });
        }
    }
    taken.map(Some).ok_or(Fault::NoGuard)
}

/// Apply the phi nodes of `block` in parallel; `from` is the predecessor block, None on function entry.
pub fn apply_phis(f: &il::Function, block: usize, from: Option<usize>, s: &mut RState) -> Result<(), Fault> {
    let b = f.block(block).map_err(|_| Fault::BadLocation(format!("block {}", block)))?;
    if b.phi_nodes().is_empty() {
        return Ok(());
    }
    let mut writes = Vec::new();
    for phi in b.phi_nodes() {
        let src = match from {
            Some(p) => phi.incoming_scalar(p),
            None => phi.entry_scalar(),
        };
        let src = src.ok_or_else(|| Fault::BadLocation(format!("phi {} has no operand for predecessor {:?}", phi.out(), from)))?;
        // an operand that was never written on this path is not an error by itself (the phi output may
        // be dead); the output then stays undefined
        if let Ok(v) = s.read(src) {
            writes.push((s.key(phi.out()), Some(v)));
        } else {
            writes.push((s.key(phi.out()), None));
        }
    }
    for (k, v) in writes {
        match v {
            Some(v) => {
                s.scalars.insert(k, v);
            }
            None => {
                s.scalars.remove(&k);
            }
        }
    }
    Ok(())
}

pub fn step(f: &il::Function, loc: &Loc, s: &mut RState, im: IntrinsicMode) -> Step {
    match loc {
        Loc::Instr { block, pos } => {
            let b = match f.block(*block) {
                Ok(b) => b,
                Err(_) => return Step::Fault(Fault::BadLocation(format!("block {}", block))),
            };
            let ins = match b.instructions().get(*pos) {
                Some(i) => i,
                None => return Step::Fault(Fault::BadLocation(format!("instruction {}:{}", block, pos))),
            };
            let eff = match exec(ins.operation(), s, im) {
                Ok(e) => e,
                Err(fl) => return Step::Fault(fl),
            };
            if let Effect::Branch { target } = eff {
                return Step::Branch(target);
            }
            if pos + 1 < b.instructions().len() {
                return Step::Next(Loc::Instr { block: *block, pos: pos + 1 }, eff);
            }
            match select_edge(f, *block, s) {
                Ok(Some(l)) => Step::Next(l, eff),
                Ok(None) => Step::Halt(eff),
                Err(fl) => Step::Fault(fl),
            }
        }
        Loc::Edge { head, tail } => {
            if let Err(fl) = apply_phis(f, *tail, Some(*head), s) {
                return Step::Fault(fl);
            }
            match Loc::block_head(f, *tail) {
                Ok(l) => Step::Next(l, Effect::Nop),
                Err(fl) => Step::Fault(fl),
            }
        }
        Loc::Empty { block } => match select_edge(f, *block, s) {
            Ok(Some(l)) => Step::Next(l, Effect::Nop),
            Ok(None) => Step::Halt(Effect::Nop),
            Err(fl) => Step::Fault(fl),
        },
    }
}

/// Read/written scalars of an operation as (name, ssa) keys, None when an intrinsic does not declare them.
pub fn reads(op: &il::Operation) -> Option<Vec<il::Scalar>> {
    op.scalars_read().map(|v| v.into_iter().cloned().collect())
}
pub fn writes(op: &il::Operation) -> Option<Vec<il::Scalar>> {
    op.scalars_written().map(|v| v.into_iter().cloned().collect())
}
