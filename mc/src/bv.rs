//! Reference bit-vector arithmetic. `Bits` is the slow, textbook model (a vector of booleans,
//! ripple-carry adder, shift-and-add multiplier, restoring divider). `Val` is the value type used
//! by the reference IL interpreter: native u128 arithmetic up to 128 bits, `Bits` beyond; the two
//! are cross-checked against each other and against native u64/i64 arithmetic by `selftest`.
//! Nothing here calls into falcon.

#[derive(Clone, Copy, PartialEq, Eq, Debug, Hash)]
pub enum BvErr {
    Sort,
    DivZero,
}

#[derive(Clone, PartialEq, Eq, Hash, Debug, PartialOrd, Ord)]
pub struct Bits(pub Vec<bool>); // index 0 = least significant bit; len = width (>= 1)

impl Bits {
    pub fn zero(w: usize) -> Bits {
        Bits(vec![false; w])
    }
    pub fn ones(w: usize) -> Bits {
        Bits(vec![true; w])
    }
    pub fn from_u128(v: u128, w: usize) -> Bits {
        Bits((0..w).map(|i| i < 128 && (v >> i) & 1 == 1).collect())
    }
    pub fn from_bytes_le(bytes: &[u8], w: usize) -> Bits {
        Bits(
            (0..w)
                .map(|i| bytes.get(i / 8).map(|b| (b >> (i % 8)) & 1 == 1).unwrap_or(false))
                .collect(),
        )
    }
    pub fn to_bytes_le(&self) -> Vec<u8> {
        let mut out = vec![0u8; (self.0.len() + 7) / 8];
        for (i, b) in self.0.iter().enumerate() {
            if *b {
                out[i / 8] |= 1 << (i % 8)
            }
        }
        out
    }
    pub fn w(&self) -> usize {
        self.0.len()
    }
    pub fn low_u128(&self) -> u128 {
        let mut v = 0u128;
        for (i, b) in self.0.iter().enumerate().take(128) {
            if *b {
                v |= 1u128 << i
            }
        }
        v
    }
    pub fn is_zero(&self) -> bool {
        self.0.iter().all(|b| !*b)
    }
    pub fn msb(&self) -> bool {
        *self.0.last().unwrap()
    }
    fn same(&self, o: &Bits) -> Result<(), BvErr> {
        if self.w() != o.w() || self.w() == 0 {
            Err(BvErr::Sort)
        } else {
            Ok(())
        }
    }
    pub fn not(&self) -> Bits {
        Bits(self.0.iter().map(|b| !*b).collect())
    }
    fn add_carry(&self, o: &Bits, mut c: bool) -> Bits {
        let mut r = Vec::with_capacity(self.w());
        for i in 0..self.w() {
            let (a, b) = (self.0[i], o.0[i]);
            r.push(a ^ b ^ c);
            c = (a & b) | (a & c) | (b & c);
        }
        Bits(r)
    }
    pub fn add(&self, o: &Bits) -> Result<Bits, BvErr> {
        self.same(o)?;
        Ok(self.add_carry(o, false))
    }
    pub fn sub(&self, o: &Bits) -> Result<Bits, BvErr> {
        self.same(o)?;
        Ok(self.add_carry(&o.not(), true))
    }
    pub fn neg(&self) -> Bits {
        Bits::zero(self.w()).add_carry(&self.not(), true)
    }
    pub fn mul(&self, o: &Bits) -> Result<Bits, BvErr> {
        self.same(o)?;
        let w = self.w();
        let mut acc = Bits::zero(w);
        for i in 0..w {
            if o.0[i] {
                // acc += self << i
                let mut sh = vec![false; w];
                for j in i..w {
                    sh[j] = self.0[j - i];
                }
                acc = acc.add_carry(&Bits(sh), false);
            }
        }
        Ok(acc)
    }
    fn ult(&self, o: &Bits) -> bool {
        for i in (0..self.w()).rev() {
            if self.0[i] != o.0[i] {
                return o.0[i];
            }
        }
        false
    }
    /// restoring division; caller guarantees divisor != 0 and equal widths
    fn udivrem(&self, o: &Bits) -> (Bits, Bits) {
        let w = self.w();
        let mut q = vec![false; w];
        let mut r = Bits::zero(w + 1);
        let mut d = o.0.clone();
        d.push(false);
        let d = Bits(d);
        for i in (0..w).rev() {
            // r = (r << 1) | bit i of self
            let mut nr = vec![self.0[i]];
            nr.extend_from_slice(&r.0[..w]);
            r = Bits(nr);
            if !r.ult(&d) {
                r = r.add_carry(&d.not(), true);
                q[i] = true;
            }
        }
        r.0.truncate(w);
        (Bits(q), r)
    }
    pub fn divu(&self, o: &Bits) -> Result<Bits, BvErr> {
        self.same(o)?;
        if o.is_zero() {
            return Err(BvErr::DivZero);
        }
        Ok(self.udivrem(o).0)
    }
    pub fn modu(&self, o: &Bits) -> Result<Bits, BvErr> {
        self.same(o)?;
        if o.is_zero() {
            return Err(BvErr::DivZero);
        }
        Ok(self.udivrem(o).1)
    }
    fn abs(&self) -> Bits {
        if self.msb() {
            self.neg()
        } else {
            self.clone()
        }
    }
    /// signed division truncating toward zero
    pub fn divs(&self, o: &Bits) -> Result<Bits, BvErr> {
        self.same(o)?;
        if o.is_zero() {
            return Err(BvErr::DivZero);
        }
        let q = self.abs().udivrem(&o.abs()).0;
        Ok(if self.msb() != o.msb() { q.neg() } else { q })
    }
    /// signed remainder; sign follows the dividend
    pub fn mods(&self, o: &Bits) -> Result<Bits, BvErr> {
        self.same(o)?;
        if o.is_zero() {
            return Err(BvErr::DivZero);
        }
        let r = self.abs().udivrem(&o.abs()).1;
        Ok(if self.msb() { r.neg() } else { r })
    }
    pub fn and(&self, o: &Bits) -> Result<Bits, BvErr> {
        self.same(o)?;
        Ok(Bits(self.0.iter().zip(&o.0).map(|(a, b)| *a & *b).collect()))
    }
    pub fn or(&self, o: &Bits) -> Result<Bits, BvErr> {
        self.same(o)?;
        Ok(Bits(self.0.iter().zip(&o.0).map(|(a, b)| *a | *b).collect()))
    }
    pub fn xor(&self, o: &Bits) -> Result<Bits, BvErr> {
        self.same(o)?;
        Ok(Bits(self.0.iter().zip(&o.0).map(|(a, b)| *a ^ *b).collect()))
    }
    /// shift amount saturated at the width
    fn amount(&self, w: usize) -> usize {
        let mut v: u128 = 0;
        for (i, b) in self.0.iter().enumerate() {
            if *b {
                if i >= 64 {
                    return w;
                }
                v |= 1u128 << i;
            }
        }
        if v >= w as u128 {
            w
        } else {
            v as usize
        }
    }
    pub fn shl(&self, o: &Bits) -> Result<Bits, BvErr> {
        self.same(o)?;
        let w = self.w();
        let n = o.amount(w);
        Ok(Bits((0..w).map(|i| i >= n && self.0[i - n]).collect()))
    }
    pub fn shr(&self, o: &Bits) -> Result<Bits, BvErr> {
        self.same(o)?;
        let w = self.w();
        let n = o.amount(w);
        Ok(Bits((0..w).map(|i| i + n < w && self.0[i + n]).collect()))
    }
    pub fn ashr(&self, o: &Bits) -> Result<Bits, BvErr> {
        self.same(o)?;
        let w = self.w();
        let n = o.amount(w);
        let s = self.msb();
        Ok(Bits(
            (0..w)
                .map(|i| if i + n < w { self.0[i + n] } else { s })
                .collect(),
        ))
    }
    fn b1(b: bool) -> Bits {
        Bits(vec![b])
    }
    pub fn cmpeq(&self, o: &Bits) -> Result<Bits, BvErr> {
        self.same(o)?;
        Ok(Bits::b1(self.0 == o.0))
    }
    pub fn cmpneq(&self, o: &Bits) -> Result<Bits, BvErr> {
        self.same(o)?;
        Ok(Bits::b1(self.0 != o.0))
    }
    pub fn cmpltu(&self, o: &Bits) -> Result<Bits, BvErr> {
        self.same(o)?;
        Ok(Bits::b1(self.ult(o)))
    }
    pub fn cmplts(&self, o: &Bits) -> Result<Bits, BvErr> {
        self.same(o)?;
        Ok(Bits::b1(match (self.msb(), o.msb()) {
            (true, false) => true,
            (false, true) => false,
            _ => self.ult(o),
        }))
    }
    pub fn zext(&self, n: usize) -> Result<Bits, BvErr> {
        if n <= self.w() || self.w() == 0 {
            return Err(BvErr::Sort);
        }
        let mut v = self.0.clone();
        v.resize(n, false);
        Ok(Bits(v))
    }
    pub fn sext(&self, n: usize) -> Result<Bits, BvErr> {
        if n <= self.w() || self.w() == 0 {
            return Err(BvErr::Sort);
        }
        let mut v = self.0.clone();
        let s = self.msb();
        v.resize(n, s);
        Ok(Bits(v))
    }
    pub fn trun(&self, n: usize) -> Result<Bits, BvErr> {
        if n >= self.w() || n == 0 {
            return Err(BvErr::Sort);
        }
        Ok(Bits(self.0[..n].to_vec()))
    }
}

#[derive(Clone, Copy, PartialEq, Eq, Debug, Hash, PartialOrd, Ord)]
pub enum Bin {
    Add,
    Sub,
    Mul,
    Divu,
    Modu,
    Divs,
    Mods,
    And,
    Or,
    Xor,
    Shl,
    Shr,
    AShr,
    Cmpeq,
    Cmpneq,
    Cmplts,
    Cmpltu,
}
pub const ALL_BIN: [Bin; 17] = [
    Bin::Add,
    Bin::Sub,
    Bin::Mul,
    Bin::Divu,
    Bin::Modu,
    Bin::Divs,
    Bin::Mods,
    Bin::And,
    Bin::Or,
    Bin::Xor,
    Bin::Shl,
    Bin::Shr,
    Bin::AShr,
    Bin::Cmpeq,
    Bin::Cmpneq,
    Bin::Cmplts,
    Bin::Cmpltu,
];

impl Bits {
    pub fn bin(&self, op: Bin, o: &Bits) -> Result<Bits, BvErr> {
        match op {
            Bin::Add => self.add(o),
            Bin::Sub => self.sub(o),
            Bin::Mul => self.mul(o),
            Bin::Divu => self.divu(o),
            Bin::Modu => self.modu(o),
            Bin::Divs => self.divs(o),
            Bin::Mods => self.mods(o),
            Bin::And => self.and(o),
            Bin::Or => self.or(o),
            Bin::Xor => self.xor(o),
            Bin::Shl => self.shl(o),
            Bin::Shr => self.shr(o),
            Bin::AShr => self.ashr(o),
            Bin::Cmpeq => self.cmpeq(o),
            Bin::Cmpneq => self.cmpneq(o),
            Bin::Cmplts => self.cmplts(o),
            Bin::Cmpltu => self.cmpltu(o),
        }
    }
}

/// Fast value: native up to 128 bits, `Bits` beyond.
#[derive(Clone, PartialEq, Eq, Hash, PartialOrd, Ord)]
pub enum Val {
    S { bits: u32, v: u128 },
    B(Bits),
}

impl std::fmt::Debug for Val {
    fn fmt(&self, f: &mut std::fmt::Formatter) -> std::fmt::Result {
        write!(f, "{}", self.show())
    }
}

fn mask(bits: u32) -> u128 {
    if bits >= 128 {
        u128::MAX
    } else {
        (1u128 << bits) - 1
    }
}

impl Val {
    pub fn new(v: u128, bits: usize) -> Val {
        if bits <= 128 {
            Val::S {
                bits: bits as u32,
                v: v & mask(bits as u32),
            }
        } else {
            Val::B(Bits::from_u128(v, bits))
        }
    }
    pub fn bit(b: bool) -> Val {
        Val::S {
            bits: 1,
            v: b as u128,
        }
    }
    pub fn from_bits(b: Bits) -> Val {
        if b.w() <= 128 {
            Val::S {
                bits: b.w() as u32,
                v: b.low_u128(),
            }
        } else {
            Val::B(b)
        }
    }
    pub fn to_bits(&self) -> Bits {
        match self {
            Val::S { bits, v } => Bits::from_u128(*v, *bits as usize),
            Val::B(b) => b.clone(),
        }
    }
    pub fn from_bytes_le(bytes: &[u8], bits: usize) -> Val {
        Val::from_bits(Bits::from_bytes_le(bytes, bits))
    }
    pub fn to_bytes_le(&self) -> Vec<u8> {
        match self {
            Val::S { bits, v } => v.to_le_bytes()[..((*bits as usize + 7) / 8)].to_vec(),
            Val::B(b) => b.to_bytes_le(),
        }
    }
    pub fn bits(&self) -> usize {
        match self {
            Val::S { bits, .. } => *bits as usize,
            Val::B(b) => b.w(),
        }
    }
    pub fn low_u128(&self) -> u128 {
        match self {
            Val::S { v, .. } => *v,
            Val::B(b) => b.low_u128(),
        }
    }
    /// value as u64 if it fits
    pub fn to_u64(&self) -> Option<u64> {
        match self {
            Val::S { v, .. } => u64::try_from(*v).ok(),
            Val::B(b) => {
                if b.0.iter().skip(64).any(|x| *x) {
                    None
                } else {
                    Some(b.low_u128() as u64)
                }
            }
        }
    }
    pub fn is_zero(&self) -> bool {
        match self {
            Val::S { v, .. } => *v == 0,
            Val::B(b) => b.is_zero(),
        }
    }
    pub fn is_one(&self) -> bool {
        match self {
            Val::S { v, .. } => *v == 1,
            Val::B(b) => b.0[0] && b.0.iter().skip(1).all(|x| !*x),
        }
    }
    pub fn show(&self) -> String {
        match self {
            Val::S { bits, v } => format!("0x{:X}:{}", v, bits),
            Val::B(b) => {
                let bytes = b.to_bytes_le();
                let mut s = String::from("0x");
                let mut lead = true;
                for x in bytes.iter().rev() {
                    if lead && *x == 0 {
                        continue;
                    }
                    if lead {
                        s.push_str(&format!("{:X}", x));
                        lead = false;
                    } else {
                        s.push_str(&format!("{:02X}", x));
                    }
                }
                if lead {
                    s.push('0');
                }
                format!("{}:{}", s, b.w())
            }
        }
    }
    fn sx(v: u128, bits: u32) -> i128 {
        if bits >= 128 {
            v as i128
        } else if (v >> (bits - 1)) & 1 == 1 {
            (v | !mask(bits)) as i128
        } else {
            v as i128
        }
    }
    pub fn bin(&self, op: Bin, o: &Val) -> Result<Val, BvErr> {
        match (self, o) {
            (Val::S { bits, v: a }, Val::S { bits: b2, v: b }) => {
                if bits != b2 || *bits == 0 {
                    return Err(BvErr::Sort);
                }
                let (bits, a, b) = (*bits, *a, *b);
                let m = mask(bits);
                let w = bits as u128;
                let r = |v: u128| Ok(Val::S { bits, v: v & m });
                let c = |x: bool| Ok(Val::bit(x));
                match op {
                    Bin::Add => r(a.wrapping_add(b)),
                    Bin::Sub => r(a.wrapping_sub(b)),
                    Bin::Mul => r(a.wrapping_mul(b)),
                    Bin::Divu => {
                        if b == 0 {
                            Err(BvErr::DivZero)
                        } else {
                            r(a / b)
                        }
                    }
                    Bin::Modu => {
                        if b == 0 {
                            Err(BvErr::DivZero)
                        } else {
                            r(a % b)
                        }
                    }
                    Bin::Divs => {
                        if b == 0 {
                            Err(BvErr::DivZero)
                        } else {
                            r(Val::sx(a, bits).wrapping_div(Val::sx(b, bits)) as u128)
                        }
                    }
                    Bin::Mods => {
                        if b == 0 {
                            Err(BvErr::DivZero)
                        } else {
                            r(Val::sx(a, bits).wrapping_rem(Val::sx(b, bits)) as u128)
                        }
                    }
                    Bin::And => r(a & b),
                    Bin::Or => r(a | b),
                    Bin::Xor => r(a ^ b),
                    Bin::Shl => {
                        if b >= w {
                            r(0)
                        } else {
                            r(a << (b as u32))
                        }
                    }
                    Bin::Shr => {
                        if b >= w {
                            r(0)
                        } else {
                            r(a >> (b as u32))
                        }
                    }
                    Bin::AShr => {
                        let s = Val::sx(a, bits);
                        if b >= w {
                            r(if s < 0 { u128::MAX } else { 0 })
                        } else {
                            r((s >> (b as u32)) as u128)
                        }
                    }
                    Bin::Cmpeq => c(a == b),
                    Bin::Cmpneq => c(a != b),
                    Bin::Cmpltu => c(a < b),
                    Bin::Cmplts => c(Val::sx(a, bits) < Val::sx(b, bits)),
                }
            }
            _ => {
                if self.bits() != o.bits() {
                    return Err(BvErr::Sort);
                }
                Ok(Val::from_bits(self.to_bits().bin(op, &o.to_bits())?))
            }
        }
    }
    pub fn zext(&self, n: usize) -> Result<Val, BvErr> {
        if n <= self.bits() || self.bits() == 0 {
            return Err(BvErr::Sort);
        }
        match self {
            Val::S { v, .. } if n <= 128 => Ok(Val::S {
                bits: n as u32,
                v: *v,
            }),
            _ => Ok(Val::from_bits(self.to_bits().zext(n)?)),
        }
    }
    pub fn sext(&self, n: usize) -> Result<Val, BvErr> {
        if n <= self.bits() || self.bits() == 0 {
            return Err(BvErr::Sort);
        }
        match self {
            Val::S { bits, v } if n <= 128 => Ok(Val::S {
                bits: n as u32,
                v: (Val::sx(*v, *bits) as u128) & mask(n as u32),
            }),
            _ => Ok(Val::from_bits(self.to_bits().sext(n)?)),
        }
    }
    pub fn trun(&self, n: usize) -> Result<Val, BvErr> {
        if n >= self.bits() || n == 0 {
            return Err(BvErr::Sort);
        }
        match self {
            Val::S { v, .. } => Ok(Val::S {
                bits: n as u32,
                v: *v & mask(n as u32),
            }),
            Val::B(b) => Ok(Val::from_bits(b.trun(n)?)),
        }
    }
}

/// Boundary alphabet for a width: 0, 1, 2, w-1, w, w+1, sign-bit neighbours, all-ones, two
/// asymmetric patterns (deduplicated, masked).
pub fn boundary(w: usize) -> Vec<Bits> {
    let mut out: Vec<Bits> = Vec::new();
    let mut push = |b: Bits| {
        if !out.contains(&b) {
            out.push(b)
        }
    };
    let small = |v: u128| Bits::from_u128(v, w);
    for v in [0u128, 1, 2, 3] {
        push(small(v));
    }
    for v in [w.saturating_sub(1), w, w + 1] {
        push(small(v as u128));
    }
    let ones = Bits::ones(w);
    let one = small(1);
    let mut sign = Bits::zero(w);
    sign.0[w - 1] = true;
    push(sign.clone()); // MIN
    push(sign.sub(&one).unwrap()); // MAX
    push(sign.add(&one).unwrap()); // MIN+1
    push(ones.clone());
    push(ones.sub(&one).unwrap());
    // asymmetric patterns
    push(Bits((0..w).map(|i| (i % 3 == 0) ^ (i % 5 == 1)).collect()));
    push(Bits((0..w).map(|i| i % 2 == 1 || i == w / 2).collect()));
    out
}

pub fn selftest_quiet() -> Result<(), String> {
    // 1. Bits vs native u64/i64 at width 64 and 32 on the boundary grid
    for &w in &[8usize, 16, 32, 64] {
        let m: u64 = if w == 64 { u64::MAX } else { (1u64 << w) - 1 };
        let sx = |v: u64| -> i64 {
            if w == 64 {
                v as i64
            } else if (v >> (w - 1)) & 1 == 1 {
                (v | !m) as i64
            } else {
                v as i64
            }
        };
        let g = boundary(w);
        for a in &g {
            for b in &g {
                let (x, y) = (a.low_u128() as u64, b.low_u128() as u64);
                let chk = |op: Bin, exp: Option<u64>| -> Result<(), String> {
                    let got = a.bin(op, b).ok().map(|r| r.low_u128() as u64);
                    if got != exp {
                        return Err(format!("Bits {:?} w={} {:#x},{:#x}: {:?} vs native {:?}", op, w, x, y, got, exp));
                    }
                    Ok(())
                };
                chk(Bin::Add, Some(x.wrapping_add(y) & m))?;
                chk(Bin::Sub, Some(x.wrapping_sub(y) & m))?;
                chk(Bin::Mul, Some(x.wrapping_mul(y) & m))?;
                chk(Bin::Divu, if y == 0 { None } else { Some(x / y) })?;
                chk(Bin::Modu, if y == 0 { None } else { Some(x % y) })?;
                chk(Bin::Divs, if y == 0 { None } else { Some((sx(x).wrapping_div(sx(y)) as u64) & m) })?;
                chk(Bin::Mods, if y == 0 { None } else { Some((sx(x).wrapping_rem(sx(y)) as u64) & m) })?;
                chk(Bin::Shl, Some(if y >= w as u64 { 0 } else { (x << y) & m }))?;
                chk(Bin::Shr, Some(if y >= w as u64 { 0 } else { x >> y }))?;
                chk(Bin::AShr, Some(if y >= w as u64 { if sx(x) < 0 { m } else { 0 } } else { ((sx(x) >> y) as u64) & m }))?;
                chk(Bin::Cmplts, Some((sx(x) < sx(y)) as u64))?;
                chk(Bin::Cmpltu, Some((x < y) as u64))?;
            }
        }
    }
    // 2. Val (native u128 path) vs Bits: exhaustive at widths 1..=4, boundary grid at others
    let mut widths: Vec<usize> = (1..=4).collect();
    widths.extend_from_slice(&[7, 8, 9, 31, 32, 33, 63, 64, 65, 127, 128]);
    for &w in &widths {
        let vals: Vec<Bits> = if w <= 4 {
            (0..(1u128 << w)).map(|v| Bits::from_u128(v, w)).collect()
        } else {
            boundary(w)
        };
        for a in &vals {
            let va = Val::from_bits(a.clone());
            if va.to_bits() != *a {
                return Err("Val round trip".into());
            }
            for n in [w + 1, w + 3, 64, 128, 129] {
                if n > w {
                    if va.zext(n).map(|v| v.to_bits()) != a.zext(n) {
                        return Err(format!("zext w={} n={}", w, n));
                    }
                    if va.sext(n).map(|v| v.to_bits()) != a.sext(n) {
                        return Err(format!("sext w={} n={}", w, n));
                    }
                }
            }
            for n in [1, w / 2, w - 1] {
                if n >= 1 && n < w && va.trun(n).map(|v| v.to_bits()) != a.trun(n) {
                    return Err(format!("trun w={} n={}", w, n));
                }
            }
            for b in &vals {
                let vb = Val::from_bits(b.clone());
                for op in ALL_BIN {
                    let r1 = a.bin(op, b);
                    let r2 = va.bin(op, &vb).map(|v| v.to_bits());
                    if r1 != r2 {
                        return Err(format!("Val/Bits mismatch {:?} w={} {:?} {:?}: {:?} vs {:?}", op, w, va, vb, r1, r2));
                    }
                }
            }
        }
    }
    Ok(())
}

pub fn selftest() {
    if let Err(e) = selftest_quiet() {
        eprintln!("bit-vector self-test FAILED: {}", e);
        std::process::exit(2)
    }
}
