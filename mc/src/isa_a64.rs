//! Reference interpreter for the A64 subset the lifter accepts (integer add/sub, the MOV aliases,
//! loads/stores incl. pairs, acquire/release and SIMD&FP register forms, branches), written from the
//! Arm ARM shared pseudocode (AddWithCarry, ShiftReg, ExtendReg, DecodeBitMasks). Decodes raw words.
use std::collections::BTreeMap;

#[derive(Clone, Debug, PartialEq)]
pub struct AState {
    pub x: [u64; 31],
    pub sp: u64,
    pub n: bool,
    pub z: bool,
    pub c: bool,
    pub v: bool,
    pub vr: [u128; 32],
    pub mem: BTreeMap<u64, u8>,
    pub big: bool,
}

#[derive(Clone, Debug, PartialEq)]
pub enum AOut {
    Next(u64),
    Fault(u64),
    Unmodelled,
    Unpredictable,
}

impl AState {
    fn xr(&self, r: usize) -> u64 {
        if r == 31 {
            0
        } else {
            self.x[r]
        }
    }
    fn xsp(&self, r: usize) -> u64 {
        if r == 31 {
            self.sp
        } else {
            self.x[r]
        }
    }
    fn set_x(&mut self, r: usize, v: u64, sf: bool) {
        if r != 31 {
            self.x[r] = if sf { v } else { v & 0xffff_ffff };
        }
    }
    fn set_xsp(&mut self, r: usize, v: u64, sf: bool) {
        let v = if sf { v } else { v & 0xffff_ffff };
        if r == 31 {
            self.sp = v
        } else {
            self.x[r] = v
        }
    }
    fn load(&self, a: u64, n: u64) -> Result<u128, u64> {
        let mut bytes = Vec::new();
        for i in 0..n {
            bytes.push(*self.mem.get(&a.wrapping_add(i)).ok_or(a.wrapping_add(i))?);
        }
        let mut v = 0u128;
        if self.big {
            for b in &bytes {
                v = (v << 8) | *b as u128;
            }
        } else {
            for b in bytes.iter().rev() {
                v = (v << 8) | *b as u128;
            }
        }
        Ok(v)
    }
    fn store(&mut self, a: u64, n: u64, v: u128) {
        for i in 0..n {
            let byte = if self.big { (v >> (8 * (n - 1 - i))) & 0xff } else { (v >> (8 * i)) & 0xff };
            self.mem.insert(a.wrapping_add(i), byte as u8);
        }
    }
}

fn sext(v: u64, bits: u32) -> u64 {
    let sh = 64 - bits;
    (((v << sh) as i64) >> sh) as u64
}

/// AddWithCarry(x, y, carry_in) on `bits` bits: (result, n, z, c, v)
fn add_with_carry(x: u64, y: u64, cin: bool, sf: bool) -> (u64, bool, bool, bool, bool) {
    let bits = if sf { 64 } else { 32 };
    let m: u128 = if sf { u64::MAX as u128 } else { 0xffff_ffff };
    let (x, y) = (x as u128 & m, y as u128 & m);
    let us = x + y + cin as u128;
    let sx = |v: u128| -> i128 {
        if (v >> (bits - 1)) & 1 == 1 {
            v as i128 - (1i128 << bits)
        } else {
            v as i128
        }
    };
    let ss = sx(x) + sx(y) + cin as i128;
    let r = us & m;
    (r as u64, (r >> (bits - 1)) & 1 == 1, r == 0, r != us, sx(r) != ss)
}

fn shift_reg(v: u64, ty: u32, amount: u32, sf: bool) -> u64 {
    let bits = if sf { 64 } else { 32 };
    let v = if sf { v } else { v & 0xffff_ffff };
    let r = match ty {
        0 => v.checked_shl(amount).unwrap_or(0),
        1 => v.checked_shr(amount).unwrap_or(0),
        2 => {
            let s = if sf { v as i64 } else { v as u32 as i32 as i64 };
            (s >> amount.min(63)) as u64
        }
        _ => {
            if sf {
                v.rotate_right(amount)
            } else {
                (v as u32).rotate_right(amount) as u64
            }
        }
    };
    if bits == 64 {
        r
    } else {
        r & 0xffff_ffff
    }
}

fn extend_reg(v: u64, option: u32, shift: u32, sf: bool) -> u64 {
    let e = match option {
        0 => v & 0xff,
        1 => v & 0xffff,
        2 => v & 0xffff_ffff,
        3 => v,
        4 => sext(v & 0xff, 8),
        5 => sext(v & 0xffff, 16),
        6 => sext(v & 0xffff_ffff, 32),
        _ => v,
    };
    let r = e << shift;
    if sf {
        r
    } else {
        r & 0xffff_ffff
    }
}

/// DecodeBitMasks(N, imms, immr, immediate=TRUE) -> wmask, None if reserved
pub fn decode_bit_masks(n: u32, imms: u32, immr: u32, sf: bool) -> Option<u64> {
    let combined = (n << 6) | (!imms & 0x3f);
    if combined == 0 {
        return None;
    }
    let len = 31 - combined.leading_zeros(); // HighestSetBit of a 7-bit value
    if len < 1 {
        return None;
    }
    if !sf && n == 1 {
        return None;
    }
    let levels = (1u32 << len) - 1;
    let s = imms & levels;
    let r = immr & levels;
    if s == levels {
        return None;
    }
    let esize = 1u32 << len;
    let welem: u64 = if s + 1 >= 64 { u64::MAX } else { (1u64 << (s + 1)) - 1 };
    // ROR(welem, r) within esize
    let emask: u64 = if esize == 64 { u64::MAX } else { (1u64 << esize) - 1 };
    let rot = if r == 0 { welem } else { ((welem >> r) | (welem << (esize - r))) & emask };
    let mut out = 0u64;
    let mut i = 0;
    while i < 64 {
        out |= rot << i;
        i += esize;
    }
    Some(if sf { out } else { out & 0xffff_ffff })
}

fn cond_holds(st: &AState, cond: u32) -> bool {
    let r = match cond >> 1 {
        0 => st.z,
        1 => st.c,
        2 => st.n,
        3 => st.v,
        4 => st.c && !st.z,
        5 => st.n == st.v,
        6 => st.n == st.v && !st.z,
        _ => true,
    };
    if cond & 1 == 1 && cond != 15 {
        !r
    } else {
        r
    }
}

pub fn step(st: &mut AState, pc: u64, w: u32) -> AOut {
    let next = pc.wrapping_add(4);
    let rd = (w & 31) as usize;
    let rn = ((w >> 5) & 31) as usize;
    let rm = ((w >> 16) & 31) as usize;
    let sf = w >> 31 == 1;
    // ---------------- hints
    if w == 0xd503201f {
        return AOut::Next(next);
    }
    // ---------------- add/sub immediate: sf op S 100010 sh imm12 Rn Rd
    if (w >> 23) & 0x3f == 0b100010 {
        let op = (w >> 30) & 1 == 1;
        let s = (w >> 29) & 1 == 1;
        let sh = (w >> 22) & 1;
        let imm = (((w >> 10) & 0xfff) as u64) << (12 * sh);
        let a = st.xsp(rn);
        let (r, n, z, c, v) = if op { add_with_carry(a, !imm, true, sf) } else { add_with_carry(a, imm, false, sf) };
        if s {
            st.n = n;
            st.z = z;
            st.c = c;
            st.v = v;
            st.set_x(rd, r, sf);
        } else {
            st.set_xsp(rd, r, sf);
        }
        return AOut::Next(next);
    }
    // ---------------- add/sub shifted / extended register: sf op S 01011 ...
    if (w >> 24) & 0x1f == 0b01011 {
        let op = (w >> 30) & 1 == 1;
        let s = (w >> 29) & 1 == 1;
        if (w >> 21) & 1 == 0 {
            let ty = (w >> 22) & 3;
            let imm6 = (w >> 10) & 0x3f;
            if ty == 3 || (!sf && imm6 >= 32) {
                return AOut::Unmodelled;
            }
            let b = shift_reg(st.xr(rm), ty, imm6, sf);
            let a = st.xr(rn);
            let (r, n, z, c, v) = if op { add_with_carry(a, !b, true, sf) } else { add_with_carry(a, b, false, sf) };
            if s {
                st.n = n;
                st.z = z;
                st.c = c;
                st.v = v;
            }
            st.set_x(rd, r, sf);
            return AOut::Next(next);
        } else {
            if (w >> 22) & 3 != 0 {
                return AOut::Unmodelled;
            }
            let option = (w >> 13) & 7;
            let imm3 = (w >> 10) & 7;
            if imm3 > 4 {
                return AOut::Unmodelled;
            }
            let b = extend_reg(st.xr(rm), option, imm3, sf);
            let a = st.xsp(rn);
            let (r, n, z, c, v) = if op { add_with_carry(a, !b, true, sf) } else { add_with_carry(a, b, false, sf) };
            if s {
                st.n = n;
                st.z = z;
                st.c = c;
                st.v = v;
                st.set_x(rd, r, sf);
            } else {
                st.set_xsp(rd, r, sf);
            }
            return AOut::Next(next);
        }
    }
    // ---------------- logical shifted register (ORR -> MOV alias): sf opc 01010 shift N Rm imm6 Rn Rd
    if (w >> 24) & 0x1f == 0b01010 {
        let opc = (w >> 29) & 3;
        let nbit = (w >> 21) & 1 == 1;
        let ty = (w >> 22) & 3;
        let imm6 = (w >> 10) & 0x3f;
        if !sf && imm6 >= 32 {
            return AOut::Unmodelled;
        }
        let mut b = shift_reg(st.xr(rm), ty, imm6, sf);
        if nbit {
            b = !b;
        }
        let a = st.xr(rn);
        let r = match opc {
            0 | 3 => a & b,
            1 => a | b,
            _ => a ^ b,
        };
        let r = if sf { r } else { r & 0xffff_ffff };
        if opc == 3 {
            st.n = if sf { r >> 63 == 1 } else { r >> 31 & 1 == 1 };
            st.z = r == 0;
            st.c = false;
            st.v = false;
        }
        st.set_x(rd, r, sf);
        return AOut::Next(next);
    }
    // ---------------- logical immediate: sf opc 100100 N immr imms Rn Rd
    if (w >> 23) & 0x3f == 0b100100 {
        let opc = (w >> 29) & 3;
        let imm = match decode_bit_masks((w >> 22) & 1, (w >> 10) & 0x3f, (w >> 16) & 0x3f, sf) {
            Some(i) => i,
            None => return AOut::Unmodelled,
        };
        let a = st.xr(rn);
        let r = match opc {
            0 | 3 => a & imm,
            1 => a | imm,
            _ => a ^ imm,
        };
        let r = if sf { r } else { r & 0xffff_ffff };
        if opc == 3 {
            st.n = if sf { r >> 63 == 1 } else { r >> 31 & 1 == 1 };
            st.z = r == 0;
            st.c = false;
            st.v = false;
            st.set_x(rd, r, sf);
        } else {
            st.set_xsp(rd, r, sf);
        }
        return AOut::Next(next);
    }
    // ---------------- move wide: sf opc 100101 hw imm16 Rd
    if (w >> 23) & 0x3f == 0b100101 {
        let opc = (w >> 29) & 3;
        let hw = (w >> 21) & 3;
        if opc == 1 || (!sf && hw > 1) {
            return AOut::Unmodelled;
        }
        let imm = (((w >> 5) & 0xffff) as u64) << (16 * hw);
        let r = match opc {
            0 => !imm,
            2 => imm,
            _ => (st.xr(rd) & !(0xffffu64 << (16 * hw))) | imm,
        };
        st.set_x(rd, r, sf);
        return AOut::Next(next);
    }
    // ---------------- branches
    if (w >> 26) & 0x1f == 0b00101 {
        let off = sext(((w & 0x03ff_ffff) as u64) << 2, 28);
        if w >> 31 == 1 {
            st.x[30] = next;
        }
        return AOut::Next(pc.wrapping_add(off));
    }
    if w >> 24 == 0b0101_0100 && (w >> 4) & 1 == 0 {
        let off = sext((((w >> 5) & 0x7ffff) as u64) << 2, 21);
        return AOut::Next(if cond_holds(st, w & 15) { pc.wrapping_add(off) } else { next });
    }
    if (w >> 25) & 0x3f == 0b011010 {
        let off = sext((((w >> 5) & 0x7ffff) as u64) << 2, 21);
        let v = if sf { st.xr(rd) } else { st.xr(rd) & 0xffff_ffff };
        let nz = (w >> 24) & 1 == 1;
        return AOut::Next(if (v == 0) != nz { pc.wrapping_add(off) } else { next });
    }
    if (w >> 25) & 0x3f == 0b011011 {
        let bit = ((w >> 31) << 5) | ((w >> 19) & 31);
        let off = sext((((w >> 5) & 0x3fff) as u64) << 2, 16);
        let set = (st.xr(rd) >> bit) & 1 == 1;
        let nz = (w >> 24) & 1 == 1;
        return AOut::Next(if set == nz { pc.wrapping_add(off) } else { next });
    }
    if w & 0xff9f_fc1f == 0xd61f_0000 {
        // BR / BLR / RET: 1101011 0 0 opc(2) 11111 000000 Rn 00000
        let opc = (w >> 21) & 3;
        let target = st.xr(rn);
        match opc {
            0 | 2 => {}
            1 => st.x[30] = next,
            _ => return AOut::Unmodelled,
        }
        return AOut::Next(target);
    }
    // ---------------- loads and stores
    let top = (w >> 27) & 7; // bits 29:27
    let vbit = (w >> 26) & 1 == 1;
    if top == 0b011 && (w >> 24) & 3 == 0 {
        // load literal: opc 011 V 00 imm19 Rt
        let opc = w >> 30;
        let addr = pc.wrapping_add(sext((((w >> 5) & 0x7ffff) as u64) << 2, 21));
        if vbit {
            let n = match opc {
                0 => 4,
                1 => 8,
                2 => 16,
                _ => return AOut::Unmodelled,
            };
            return match st.load(addr, n) {
                Ok(v) => {
                    st.vr[rd] = v;
                    AOut::Next(next)
                }
                Err(a) => AOut::Fault(a),
            };
        }
        return match opc {
            0 | 1 | 2 => {
                let n = if opc == 1 { 8 } else { 4 };
                match st.load(addr, n) {
                    Ok(v) => {
                        let v = if opc == 2 { sext(v as u64, 32) } else { v as u64 };
                        st.set_x(rd, v, true);
                        AOut::Next(next)
                    }
                    Err(a) => AOut::Fault(a),
                }
            }
            _ => AOut::Next(next), // PRFM literal
        };
    }
    if top == 0b101 {
        // pairs: opc 101 V 0 mode(2) L imm7 Rt2 Rn Rt
        if (w >> 25) & 1 != 0 {
            return AOut::Unmodelled;
        }
        let opc = w >> 30;
        let mode = (w >> 23) & 3;
        let l = (w >> 22) & 1 == 1;
        let rt2 = ((w >> 10) & 31) as usize;
        let (n, signed) = if vbit {
            match opc {
                0 => (4u64, false),
                1 => (8, false),
                2 => (16, false),
                _ => return AOut::Unmodelled,
            }
        } else {
            match opc {
                0 => (4, false),
                1 => {
                    if !l || mode == 0 {
                        return AOut::Unmodelled;
                    }
                    (4, true)
                }
                2 => (8, false),
                _ => return AOut::Unmodelled,
            }
        };
        let off = sext(((w >> 15) & 0x7f) as u64, 7).wrapping_mul(n);
        let wback = mode == 1 || mode == 3;
        if wback && !vbit && (rd == rn || (l && rt2 == rn)) && rn != 31 {
            return AOut::Unpredictable;
        }
        if l && !vbit && rd == rt2 {
            return AOut::Unpredictable;
        }
        if l && vbit && rd == rt2 {
            return AOut::Unpredictable;
        }
        let base = st.xsp(rn);
        let addr = if mode == 1 { base } else { base.wrapping_add(off) };
        if l {
            let a = match st.load(addr, n) {
                Ok(v) => v,
                Err(a) => return AOut::Fault(a),
            };
            let b = match st.load(addr.wrapping_add(n), n) {
                Ok(v) => v,
                Err(a) => return AOut::Fault(a),
            };
            if vbit {
                st.vr[rd] = a;
                st.vr[rt2] = b;
            } else {
                let (a, b) = if signed { (sext(a as u64, 32), sext(b as u64, 32)) } else { (a as u64, b as u64) };
                st.set_x(rd, a, true);
                st.set_x(rt2, b, true);
            }
        } else if vbit {
            let m: u128 = if n == 16 { u128::MAX } else { (1u128 << (8 * n)) - 1 };
            let (a, b) = (st.vr[rd] & m, st.vr[rt2] & m);
            st.store(addr, n, a);
            st.store(addr.wrapping_add(n), n, b);
        } else {
            let (a, b) = (st.xr(rd), st.xr(rt2));
            st.store(addr, n, a as u128);
            st.store(addr.wrapping_add(n), n, b as u128);
        }
        if wback {
            let nb = base.wrapping_add(off);
            if rn == 31 {
                st.sp = nb
            } else {
                st.x[rn] = nb
            }
        }
        return AOut::Next(next);
    }
    if top == 0b111 {
        // single register: size 111 V (01 imm12 | 00 ...) opc
        let size = w >> 30;
        let opc = (w >> 22) & 3;
        let unsigned_off = (w >> 24) & 3 == 1;
        if !unsigned_off && (w >> 24) & 3 != 0 {
            return AOut::Unmodelled;
        }
        // access size and kind
        let (n, kind): (u64, u8) = if vbit {
            // kind 0 store, 1 load
            let scale = size | ((opc >> 1) << 2);
            if scale > 4 {
                return AOut::Unmodelled;
            }
            (1u64 << scale, (opc & 1) as u8)
        } else {
            match opc {
                0 => (1 << size, 0),
                1 => (1 << size, 1),
                2 => {
                    if size == 3 {
                        return if unsigned_off || (w >> 21) & 1 == 1 || (w >> 10) & 3 == 0 { AOut::Next(next) } else { AOut::Unmodelled }; // PRFM
                    }
                    (1 << size, 2) // sign-extend to 64
                }
                _ => {
                    if size >= 2 {
                        return AOut::Unmodelled;
                    }
                    (1 << size, 3) // sign-extend to 32
                }
            }
        };
        let base = st.xsp(rn);
        let mut wback = false;
        let mut post = false;
        let offset: u64;
        if unsigned_off {
            offset = (((w >> 10) & 0xfff) as u64).wrapping_mul(n);
        } else if (w >> 21) & 1 == 1 {
            // register offset: 1 Rm option S 10
            if (w >> 10) & 3 != 2 {
                return AOut::Unmodelled;
            }
            let option = (w >> 13) & 7;
            if option & 2 == 0 {
                return AOut::Unmodelled;
            }
            let s = (w >> 12) & 1;
            let shift = if s == 1 { n.trailing_zeros() } else { 0 };
            offset = extend_reg(st.xr(rm), option, shift, true);
        } else {
            let imm9 = sext(((w >> 12) & 0x1ff) as u64, 9);
            match (w >> 10) & 3 {
                0 => offset = imm9,
                1 => {
                    wback = true;
                    post = true;
                    offset = imm9
                }
                3 => {
                    wback = true;
                    offset = imm9
                }
                _ => return AOut::Unmodelled, // unprivileged
            }
        }
        if wback && !vbit && rd == rn && rn != 31 {
            return AOut::Unpredictable;
        }
        let addr = if post { base } else { base.wrapping_add(offset) };
        if kind == 0 {
            let v: u128 = if vbit {
                let m: u128 = if n == 16 { u128::MAX } else { (1u128 << (8 * n)) - 1 };
                st.vr[rd] & m
            } else {
                st.xr(rd) as u128
            };
            st.store(addr, n, v);
        } else {
            let v = match st.load(addr, n) {
                Ok(v) => v,
                Err(a) => return AOut::Fault(a),
            };
            if vbit {
                st.vr[rd] = v;
            } else {
                let bits = (8 * n) as u32;
                match kind {
                    1 => st.set_x(rd, v as u64, true),
                    2 => st.set_x(rd, sext(v as u64, bits), true),
                    _ => st.set_x(rd, sext(v as u64, bits) & 0xffff_ffff, true),
                }
            }
        }
        if wback {
            let nb = base.wrapping_add(offset);
            if rn == 31 {
                st.sp = nb
            } else {
                st.x[rn] = nb
            }
        }
        return AOut::Next(next);
    }
    if (w >> 24) & 0x3f == 0b001000 {
        // load-acquire / store-release (no exclusives): size 001000 o2 L o1 Rs o0 Rt2 Rn Rt, o2 = 1, o1 = 0
        let size = w >> 30;
        let o2 = (w >> 23) & 1;
        let l = (w >> 22) & 1 == 1;
        let o1 = (w >> 21) & 1;
        if o2 != 1 || o1 != 0 || (w >> 16) & 31 != 31 || (w >> 10) & 31 != 31 {
            return AOut::Unmodelled;
        }
        let n = 1u64 << size;
        let addr = st.xsp(rn);
        if l {
            match st.load(addr, n) {
                Ok(v) => st.set_x(rd, v as u64, true),
                Err(a) => return AOut::Fault(a),
            }
        } else {
            let v = st.xr(rd);
            let m: u128 = if n == 8 { u64::MAX as u128 } else { (1u128 << (8 * n)) - 1 };
            st.store(addr, n, v as u128 & m);
        }
        return AOut::Next(next);
    }
    AOut::Unmodelled
}
