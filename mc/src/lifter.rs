//! Single-block lifting helpers shared by the lifter properties: guarded lifting, an independent
//! IL well-formedness validator, and execution of a lifted block with the reference interpreter.
use crate::archs;
use crate::bv::Val;
use crate::refil::{self, Fault, IntrinsicMode, Loc, RState, Step};
use crate::util::guarded;
use falcon::il::{self, Expression as E};
use falcon::translator::{BlockTranslationResult as Btr, Options};
use std::collections::{BTreeMap, BTreeSet};

pub fn word_bits(arch: &str) -> usize {
    match arch {
        "amd64" | "aarch64" | "aarch64eb" => 64,
        _ => 32,
    }
}

pub enum Lifted {
    Ok(Btr),
    Err(String),
    Panic(String),
}

pub fn lift_block(arch: &str, bytes: &[u8], address: u64, intrinsics: bool) -> Lifted {
    let mut o = Options::new();
    o.set_unsupported_are_intrinsics(intrinsics);
    let t = archs::arch(arch).translator();
    match guarded(|| t.translate_block(bytes, address, &o)) {
        Ok(Ok(b)) => Lifted::Ok(b),
        Ok(Err(e)) => Lifted::Err(format!("{}", e)),
        Err(p) => Lifted::Panic(p),
    }
}

/// Static width of an expression, or a description of the first ill-sorted node.
pub fn sort_of(e: &E) -> Result<usize, String> {
    let bin = |a: &E, b: &E, name: &str| -> Result<usize, String> {
        let (x, y) = (sort_of(a)?, sort_of(b)?);
        if x != y {
            return Err(format!("{}: {} vs {} bits", name, x, y));
        }
        Ok(x)
    };
    match e {
        E::Scalar(s) => {
            if s.bits() == 0 {
                Err(format!("scalar {} has 0 bits", s.name()))
            } else {
                Ok(s.bits())
            }
        }
        E::Constant(c) => {
            if c.bits() == 0 {
                Err("0-bit constant".into())
            } else if c.value().bits() as usize > c.bits() {
                Err("constant value exceeds its width".into())
            } else {
                Ok(c.bits())
            }
        }
        E::Add(a, b) => bin(a, b, "add"),
        E::Sub(a, b) => bin(a, b, "sub"),
        E::Mul(a, b) => bin(a, b, "mul"),
        E::Divu(a, b) => bin(a, b, "divu"),
        E::Modu(a, b) => bin(a, b, "modu"),
        E::Divs(a, b) => bin(a, b, "divs"),
        E::Mods(a, b) => bin(a, b, "mods"),
        E::And(a, b) => bin(a, b, "and"),
        E::Or(a, b) => bin(a, b, "or"),
        E::Xor(a, b) => bin(a, b, "xor"),
        E::Shl(a, b) => bin(a, b, "shl"),
        E::Shr(a, b) => bin(a, b, "shr"),
        E::AShr(a, b) => bin(a, b, "ashr"),
        E::Cmpeq(a, b) => bin(a, b, "cmpeq").map(|_| 1),
        E::Cmpneq(a, b) => bin(a, b, "cmpneq").map(|_| 1),
        E::Cmplts(a, b) => bin(a, b, "cmplts").map(|_| 1),
        E::Cmpltu(a, b) => bin(a, b, "cmpltu").map(|_| 1),
        E::Zext(n, a) | E::Sext(n, a) => {
            let x = sort_of(a)?;
            if *n <= x {
                Err(format!("extension from {} to {} bits", x, n))
            } else {
                Ok(*n)
            }
        }
        E::Trun(n, a) => {
            let x = sort_of(a)?;
            if *n >= x || *n == 0 {
                Err(format!("truncation from {} to {} bits", x, n))
            } else {
                Ok(*n)
            }
        }
        E::Ite(c, a, b) => {
            let cw = sort_of(c)?;
            if cw != 1 {
                return Err(format!("ite condition has {} bits", cw));
            }
            bin(a, b, "ite")
        }
    }
}

fn scalars_of(e: &E, out: &mut BTreeMap<String, usize>) {
    for s in e.scalars() {
        out.insert(s.name().to_string(), s.bits());
    }
}

/// All valuations of the given scalars: every value for 1-bit scalars, a boundary alphabet otherwise.
fn valuations(scalars: &BTreeMap<String, usize>) -> Vec<Vec<(String, Val)>> {
    let mut out: Vec<Vec<(String, Val)>> = vec![vec![]];
    for (name, bits) in scalars {
        let vals: Vec<u128> = if *bits == 1 {
            vec![0, 1]
        } else {
            let m = if *bits >= 128 { u128::MAX } else { (1u128 << bits) - 1 };
            let mut v = vec![0, 1, 2, m, m - 1, 1u128 << (bits - 1), (1u128 << (bits - 1)) - 1];
            v.sort();
            v.dedup();
            v
        };
        let mut next = Vec::new();
        for p in &out {
            for v in &vals {
                let mut q = p.clone();
                q.push((name.clone(), Val::new(*v, *bits)));
                next.push(q);
            }
        }
        out = next;
        if out.len() > 4096 {
            break;
        }
    }
    out
}

/// Under every valuation exactly one of the guards must be true (None = unconditional = always true).
fn exactly_one(guards: &[Option<&E>]) -> Result<(), String> {
    if guards.is_empty() {
        return Ok(());
    }
    let mut scalars = BTreeMap::new();
    for g in guards.iter().flatten() {
        scalars_of(g, &mut scalars);
    }
    for val in valuations(&scalars) {
        let mut st = RState::new(refil::End::Little);
        for (n, v) in &val {
            st.set(n, v.clone());
        }
        let mut on = 0;
        for g in guards {
            match g {
                None => on += 1,
                Some(e) => match refil::eval(e, &st) {
                    Ok(v) => {
                        if v.is_one() {
                            on += 1
                        }
                    }
                    Err(f) => return Err(format!("guard {} does not evaluate: {:?}", e, f)),
                },
            }
        }
        if on != 1 {
            let shown: Vec<String> = val.iter().map(|(n, v)| format!("{}={:?}", n, v)).collect();
            return Err(format!("{} of {} guards enabled under {}", on, guards.len(), shown.join(",")));
        }
    }
    Ok(())
}

/// Well-formedness of a lifted block. Returns (finding class, description) pairs.
pub fn validate(btr: &Btr, arch: &str) -> Vec<(String, String, Option<u64>)> {
    let w = word_bits(arch);
    let mut out: Vec<(String, String, Option<u64>)> = Vec::new();
    for (addr, g) in btr.instructions() {
        let mut bad: Vec<(String, String)> = Vec::new();
        let ctx = |s: String| format!("instruction at {:#x}: {}", addr, s);
        let blocks: BTreeSet<usize> = g.blocks().iter().map(|b| b.index()).collect();
        match (g.entry(), g.exit()) {
            (Some(en), Some(ex)) => {
                if !blocks.contains(&en) || !blocks.contains(&ex) {
                    bad.push(("entry-exit-missing-block".into(), ctx(format!("entry {} exit {} blocks {:?}", en, ex, blocks))));
                } else {
                    // exit reachable from entry
                    let mut seen = BTreeSet::new();
                    let mut st = vec![en];
                    while let Some(b) = st.pop() {
                        if seen.insert(b) {
                            for e in g.edges() {
                                if e.head() == b {
                                    st.push(e.tail());
                                }
                            }
                        }
                    }
                    if !seen.contains(&ex) {
                        bad.push(("exit-unreachable".into(), ctx(format!("exit {} not reachable from entry {}", ex, en))));
                    }
                }
            }
            _ => bad.push(("entry-exit-unset".into(), ctx("entry or exit not set".into()))),
        }
        // control leaves an instruction's graph at its exit block and nowhere else: the exit has no out-edges, and an
        // unconditional edge is the only edge out of its block (otherwise "exactly one enabled successor" fails)
        if let Some(ex) = g.exit() {
            if g.edges().iter().any(|e| e.head() == ex) {
                bad.push(("exit-has-successors".into(), ctx(format!("edge(s) lead out of the exit block {}", ex))));
            }
        }
        for e in g.edges() {
            if e.condition().is_none() && g.edges().iter().filter(|o| o.head() == e.head()).count() > 1 {
                bad.push(("unconditional-edge-with-siblings".into(), ctx(format!("{}", e))));
            }
        }
        for e in g.edges() {
            if !blocks.contains(&e.head()) || !blocks.contains(&e.tail()) {
                bad.push(("dangling-edge".into(), ctx(format!("{}", e))));
            }
            if let Some(c) = e.condition() {
                match sort_of(c) {
                    Ok(1) => {}
                    Ok(n) => bad.push(("guard-width".into(), ctx(format!("guard {} has {} bits", c, n)))),
                    Err(s) => bad.push(("ill-sorted-guard".into(), ctx(format!("{}: {}", c, s)))),
                }
            }
        }
        for b in g.blocks() {
            for ins in b.instructions() {
                let op = ins.operation();
                let opctx = |s: String| ctx(format!("`{}`: {}", op, s));
                match op {
                    il::Operation::Assign { dst, src } => match sort_of(src) {
                        Ok(n) => {
                            if n != dst.bits() {
                                let seg = if dst.name().ends_with("_base") { ":segment-base" } else { "" };
                                bad.push((format!("assign-width:{}->{}{}", n, dst.bits(), seg), opctx(format!("{} bits assigned to {} bits", n, dst.bits()))));
                            }
                        }
                        Err(s) => bad.push(("ill-sorted-expression".into(), opctx(s))),
                    },
                    il::Operation::Store { index, src } => {
                        match sort_of(index) {
                            Ok(n) if n == w => {}
                            Ok(n) => bad.push(("address-width".into(), opctx(format!("store address has {} bits", n)))),
                            Err(s) => bad.push(("ill-sorted-expression".into(), opctx(s))),
                        }
                        match sort_of(src) {
                            Ok(n) if n % 8 == 0 && n > 0 => {}
                            Ok(n) => bad.push(("access-width".into(), opctx(format!("store of {} bits", n)))),
                            Err(s) => bad.push(("ill-sorted-expression".into(), opctx(s))),
                        }
                    }
                    il::Operation::Load { dst, index } => {
                        match sort_of(index) {
                            Ok(n) if n == w => {}
                            Ok(n) => bad.push(("address-width".into(), opctx(format!("load address has {} bits", n)))),
                            Err(s) => bad.push(("ill-sorted-expression".into(), opctx(s))),
                        }
                        if dst.bits() % 8 != 0 || dst.bits() == 0 {
                            bad.push(("access-width".into(), opctx(format!("load of {} bits", dst.bits()))));
                        }
                    }
                    il::Operation::Branch { target } => match sort_of(target) {
                        Ok(n) if n == w => {}
                        Ok(n) => bad.push(("branch-target-width".into(), opctx(format!("branch target has {} bits", n)))),
                        Err(s) => bad.push(("ill-sorted-expression".into(), opctx(s))),
                    },
                    il::Operation::Intrinsic { .. } | il::Operation::Nop { .. } => {}
                }
            }
            let outs: Vec<Option<&E>> = g.edges().iter().filter(|e| e.head() == b.index()).map(|e| e.condition()).collect();
            if outs.iter().flatten().all(|c| sort_of(c) == Ok(1)) {
                if let Err(s) = exactly_one(&outs) {
                    bad.push(("guards-not-exclusive-exhaustive".into(), ctx(format!("block {}: {}", b.index(), s))));
                }
            }
        }
        out.extend(bad.into_iter().map(|(c, w)| (c, w, Some(*addr))));
    }
    let mut bad: Vec<(String, String)> = Vec::new();
    let succ: Vec<Option<&E>> = btr.successors().iter().map(|(_, c)| c.as_ref()).collect();
    let mut ok = true;
    for c in succ.iter().flatten() {
        match sort_of(c) {
            Ok(1) => {}
            Ok(n) => {
                ok = false;
                bad.push(("successor-condition-width".into(), format!("successor condition {} has {} bits", c, n)))
            }
            Err(s) => {
                ok = false;
                bad.push(("ill-sorted-successor-condition".into(), format!("{}: {}", c, s)))
            }
        }
    }
    if ok {
        if let Err(s) = exactly_one(&succ) {
            bad.push(("successors-not-exclusive-exhaustive".into(), s));
        }
    }
    let last = btr.instructions().last().map(|(a, _)| *a);
    out.extend(bad.into_iter().map(|(c, w)| (c, w, last)));
    out
}

/// equality of two lifting results (determinism)
pub fn same(a: &Btr, b: &Btr) -> bool {
    a.address() == b.address() && a.length() == b.length() && a.instructions() == b.instructions() && a.successors() == b.successors()
}

#[derive(Clone, Debug, PartialEq)]
pub enum BlockEnd {
    /// control continues at this address
    Next(u64),
    /// an intrinsic was reached (mnemonic)
    Intrinsic(String),
    Fault(Fault),
    /// block ended without any successor and without a branch
    NoSuccessor,
    StepLimit,
}

/// Execute one per-instruction graph. Ok(None) = ran to completion, Ok(Some(t)) = indirect branch to t.
pub fn run_graph(g: &il::ControlFlowGraph, st: &mut RState, max_steps: usize) -> Result<Option<u64>, BlockEnd> {
    let f = il::Function::new(0, g.clone());
    let mut loc = match Loc::entry(&f) {
        Ok(l) => l,
        Err(fl) => return Err(BlockEnd::Fault(fl)),
    };
    for _ in 0..max_steps {
        match refil::step(&f, &loc, st, IntrinsicMode::Fault) {
            Step::Next(l, _) => loc = l,
            Step::Halt(_) => return Ok(None),
            Step::Branch(t) => return Ok(Some(t)),
            Step::Fault(Fault::Intrinsic(m)) => return Err(BlockEnd::Intrinsic(m)),
            Step::Fault(fl) => return Err(BlockEnd::Fault(fl)),
        }
    }
    Err(BlockEnd::StepLimit)
}

/// Execute a lifted block: every instruction graph in order, then the successor whose condition holds.
/// `upto`: execute only the first n instruction graphs (None = all).
pub fn run_block(btr: &Btr, st: &mut RState, max_steps: usize) -> BlockEnd {
    for (_, g) in btr.instructions() {
        match run_graph(g, st, max_steps) {
            Ok(None) => {}
            Ok(Some(t)) => return BlockEnd::Next(t),
            Err(e) => return e,
        }
    }
    let mut taken = None;
    for (addr, cond) in btr.successors() {
        let on = match cond {
            None => true,
            Some(c) => match refil::eval(c, st) {
                Ok(v) => v.is_one(),
                Err(fl) => return BlockEnd::Fault(fl),
            },
        };
        if on {
            if taken.is_some() {
                return BlockEnd::Fault(Fault::AmbiguousGuard);
            }
            taken = Some(*addr);
        }
    }
    match taken {
        Some(a) => BlockEnd::Next(a),
        None => {
            if btr.successors().is_empty() {
                BlockEnd::NoSuccessor
            } else {
                BlockEnd::Fault(Fault::NoGuard)
            }
        }
    }
}

/// every (name, width) scalar mentioned by a lifted block
pub fn block_scalars(btr: &Btr) -> BTreeMap<String, BTreeSet<usize>> {
    let mut out: BTreeMap<String, BTreeSet<usize>> = BTreeMap::new();
    let mut add = |s: &il::Scalar| {
        out.entry(s.name().to_string()).or_default().insert(s.bits());
    };
    for (_, g) in btr.instructions() {
        for b in g.blocks() {
            for i in b.instructions() {
                match i.operation() {
                    il::Operation::Assign { dst, src } => {
                        add(dst);
                        src.scalars().into_iter().for_each(&mut add);
                    }
                    il::Operation::Store { index, src } => {
                        index.scalars().into_iter().for_each(&mut add);
                        src.scalars().into_iter().for_each(&mut add);
                    }
                    il::Operation::Load { dst, index } => {
                        add(dst);
                        index.scalars().into_iter().for_each(&mut add);
                    }
                    il::Operation::Branch { target } => target.scalars().into_iter().for_each(&mut add),
                    _ => {}
                }
            }
        }
        for e in g.edges() {
            if let Some(c) = e.condition() {
                c.scalars().into_iter().for_each(&mut add);
            }
        }
    }
    for (_, c) in btr.successors() {
        if let Some(c) = c {
            c.scalars().into_iter().for_each(&mut add);
        }
    }
    out
}
