//! Byte-level grammar for x86 / x86-64 instruction strings (not an assembler):
//! [legacy prefix] [REX] opcode [ModRM [SIB]] tail, padded with `ret` bytes.
#[derive(Clone, Debug)]
pub struct Enc {
    pub prefix: Vec<u8>,
    pub rex: Option<u8>,
    pub opcode: Vec<u8>,
    pub modrm: u8,
    pub sib: u8,
    pub tail: u8, // index of the tail pattern
}

pub const TAILS: [[u8; 8]; 5] = [[0; 8], [1, 0, 0, 0, 0, 0, 0, 0], [0x7f; 8], [0x80; 8], [0xff; 8]];

impl Enc {
    pub fn has_sib(&self) -> bool {
        self.modrm >> 6 != 3 && self.modrm & 7 == 4
    }
    /// bytes up to and including ModRM/SIB
    pub fn head(&self) -> Vec<u8> {
        let mut v = self.prefix.clone();
        if let Some(r) = self.rex {
            v.push(r);
        }
        v.extend_from_slice(&self.opcode);
        v.push(self.modrm);
        if self.has_sib() {
            v.push(self.sib);
        }
        v
    }
    pub fn bytes(&self) -> Vec<u8> {
        let mut v = self.head();
        v.extend_from_slice(&TAILS[self.tail as usize]);
        v.extend_from_slice(&[0xc3, 0xc3]);
        v
    }
}

pub fn opcodes(thorough: bool) -> Vec<Vec<u8>> {
    let mut v: Vec<Vec<u8>> = Vec::new();
    for b in 0..=255u8 {
        // bytes that are prefixes in both modes are exercised through `prefix`
        if [0x26, 0x2e, 0x36, 0x3e, 0x64, 0x65, 0x66, 0x67, 0xf0, 0xf2, 0xf3, 0x0f].contains(&b) {
            continue;
        }
        v.push(vec![b]);
    }
    for b in 0..=255u8 {
        if b == 0x38 || b == 0x3a {
            continue;
        }
        v.push(vec![0x0f, b]);
    }
    let step = if thorough { 1 } else { 4 };
    for b in (0..=0x41u8).step_by(step) {
        v.push(vec![0x0f, 0x38, b]);
    }
    for b in [0x0fu8, 0x14, 0x16, 0x17, 0x20, 0x22, 0x63] {
        v.push(vec![0x0f, 0x3a, b]);
    }
    v
}

pub fn modrms(thorough: bool) -> Vec<(u8, u8)> {
    if thorough {
        let mut v = Vec::new();
        for m in 0..=255u8 {
            if m >> 6 != 3 && m & 7 == 4 {
                for sib in [0x00u8, 0x24, 0x88, 0xe5, 0x25] {
                    v.push((m, sib));
                }
            } else {
                v.push((m, 0));
            }
        }
        v
    } else {
        vec![(0xc0, 0), (0xc1, 0), (0xd8, 0), (0xff, 0), (0xe3, 0), (0x00, 0), (0x01, 0), (0x04, 0x88), (0x05, 0), (0x40, 0), (0x44, 0x24), (0x80, 0), (0x0d, 0), (0x4c, 0xe5)]
    }
}

/// Opcodes whose ModRM.reg field selects the operation (Intel "groups"): in the quick tier these get every /r
/// value, in a register form and in a memory form, so that no member of a group goes unexercised.
pub fn is_group(opcode: &[u8]) -> bool {
    match opcode {
        [b] => matches!(b, 0x80..=0x83 | 0x8f | 0xc0 | 0xc1 | 0xc6 | 0xc7 | 0xd0..=0xd3 | 0xf6 | 0xf7 | 0xfe | 0xff),
        [0x0f, b] => matches!(b, 0x00 | 0x01 | 0x18 | 0x1f | 0x71..=0x73 | 0xae | 0xba | 0xc7),
        _ => false,
    }
}

pub fn modrms_group(thorough: bool) -> Vec<(u8, u8)> {
    let mut v = modrms(thorough);
    if !thorough {
        for r in 0..8u8 {
            for m in [0xc0 | (r << 3) | ((r + 1) & 7), r << 3, 0x40 | (r << 3) | 3] {
                if !v.iter().any(|(x, _)| *x == m) {
                    v.push((m, 0));
                }
            }
        }
    }
    v
}

pub fn rexes(mode64: bool) -> Vec<Option<u8>> {
    if mode64 {
        vec![None, Some(0x40), Some(0x41), Some(0x44), Some(0x45), Some(0x48), Some(0x49), Some(0x4c), Some(0x4d)]
    } else {
        vec![None]
    }
}

pub fn prefixes(extended: bool) -> Vec<Vec<u8>> {
    let mut v = vec![vec![], vec![0x66], vec![0xf2], vec![0xf3]];
    if extended {
        for p in [0xf0u8, 0x2e, 0x36, 0x3e, 0x26, 0x64, 0x65, 0x67] {
            v.push(vec![p]);
        }
        v.push(vec![0x66, 0xf2]);
        v.push(vec![0x67, 0x66]);
    }
    v
}

/// Enumerate the grammar; `f` gets a running case number.
pub fn for_each(mode64: bool, thorough: bool, extended_prefixes: bool, tails: &[u8], mut f: impl FnMut(u64, &Enc)) {
    let mut n = 0u64;
    let ops = opcodes(thorough);
    let mrs_plain = modrms(thorough);
    let mrs_group = modrms_group(thorough);
    for prefix in prefixes(extended_prefixes) {
        let ext = prefix.iter().any(|p| ![0x66, 0xf2, 0xf3].contains(p)) || prefix.len() > 1;
        for rex in rexes(mode64) {
            if ext && rex.is_some() && rex != Some(0x48) {
                continue;
            }
            for opcode in &ops {
                let mrs = if is_group(opcode) { &mrs_group } else { &mrs_plain };
                for (modrm, sib) in mrs {
                    for &tail in tails {
                        let e = Enc { prefix: prefix.clone(), rex, opcode: opcode.clone(), modrm: *modrm, sib: *sib, tail };
                        f(n, &e);
                        n += 1;
                    }
                }
            }
        }
    }
}
