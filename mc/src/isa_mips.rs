//! Reference interpreter for the MIPS32 (release 2) subset the lifter accepts, written from the
//! "MIPS32 Architecture for Programmers, Volume II" pseudocode. Decodes raw instruction words by
//! field extraction; shares nothing with falcon or capstone.
use std::collections::BTreeMap;

#[derive(Clone, Debug, PartialEq)]
pub struct MState {
    pub r: [u32; 32],
    pub hi: u32,
    pub lo: u32,
    pub mem: BTreeMap<u32, u8>,
    pub big: bool,
    /// set when HI/LO (or a destination) become UNPREDICTABLE; compared leniently
    pub hilo_unpredictable: bool,
}

#[derive(Clone, Debug, PartialEq)]
pub enum MOut {
    /// next program counter
    Next(u32),
    /// the instruction traps (overflow, teq, break, syscall): name
    Trap(&'static str),
    /// a load/store touches an unmapped byte
    Fault(u32),
    /// the reference does not model this word
    Unmodelled,
    /// architecturally UNPREDICTABLE (branch in a delay slot, division by zero results are masked separately)
    Unpredictable,
}

fn sext16(x: u32) -> u32 {
    (x as u16) as i16 as i32 as u32
}

impl MState {
    fn set(&mut self, r: usize, v: u32) {
        if r != 0 {
            self.r[r] = v;
        }
    }
    fn load(&self, a: u32, n: u32) -> Result<Vec<u8>, u32> {
        (0..n).map(|i| self.mem.get(&a.wrapping_add(i)).cloned().ok_or(a.wrapping_add(i))).collect()
    }
    fn load_val(&self, a: u32, n: u32) -> Result<u32, u32> {
        let b = self.load(a, n)?;
        let mut v = 0u32;
        if self.big {
            for x in &b {
                v = (v << 8) | *x as u32;
            }
        } else {
            for x in b.iter().rev() {
                v = (v << 8) | *x as u32;
            }
        }
        Ok(v)
    }
    fn store_val(&mut self, a: u32, n: u32, v: u32) -> Result<(), u32> {
        // stores to unmapped bytes simply create them (the IL memory model does the same)
        for i in 0..n {
            let byte = if self.big { (v >> (8 * (n - 1 - i))) & 0xff } else { (v >> (8 * i)) & 0xff };
            self.mem.insert(a.wrapping_add(i), byte as u8);
        }
        Ok(())
    }
}

pub fn is_branch(word: u32) -> bool {
    let op = word >> 26;
    let funct = word & 0x3f;
    let rt = (word >> 16) & 0x1f;
    match op {
        0 => funct == 8 || funct == 9,
        1 => matches!(rt, 0 | 1 | 2 | 3 | 0x10 | 0x11 | 0x12 | 0x13),
        2..=7 => true,
        0x14..=0x17 => true, // branch likely
        0x11 => (word >> 21) & 0x1f == 8, // bc1
        _ => false,
    }
}

/// Execute one non-branch instruction. pc is only needed for nothing here (no pc-relative non-branches).
fn exec_simple(st: &mut MState, word: u32) -> Result<(), MOut> {
    let op = word >> 26;
    if op >= 0x20 && op != 0x33 {
        // accesses that wrap around the 32-bit address space are outside what the harness' 64-bit IL
        // memory can mirror
        let ea = st.r[((word >> 21) & 0x1f) as usize].wrapping_add(sext16(word & 0xffff));
        if ea > 0xffff_fff0 {
            return Err(MOut::Unpredictable);
        }
    }
    let rs = ((word >> 21) & 0x1f) as usize;
    let rt = ((word >> 16) & 0x1f) as usize;
    let rd = ((word >> 11) & 0x1f) as usize;
    let sa = (word >> 6) & 0x1f;
    let funct = word & 0x3f;
    let imm = word & 0xffff;
    let (a, b) = (st.r[rs], st.r[rt]);
    match op {
        0 => match funct {
            0 => {
                if rs != 0 {
                    return Err(MOut::Unmodelled);
                }
                st.set(rd, b << sa)
            }
            2 => {
                if rs != 0 {
                    return Err(MOut::Unmodelled); // rotr
                }
                st.set(rd, b >> sa)
            }
            3 => {
                if rs != 0 {
                    return Err(MOut::Unmodelled);
                }
                st.set(rd, ((b as i32) >> sa) as u32)
            }
            4 => {
                if sa != 0 {
                    return Err(MOut::Unmodelled);
                }
                st.set(rd, b << (a & 31))
            }
            6 => {
                if sa != 0 {
                    return Err(MOut::Unmodelled); // rotrv
                }
                st.set(rd, b >> (a & 31))
            }
            7 => {
                if sa != 0 {
                    return Err(MOut::Unmodelled);
                }
                st.set(rd, ((b as i32) >> (a & 31)) as u32)
            }
            0x0a => {
                if sa != 0 {
                    return Err(MOut::Unmodelled);
                }
                if b == 0 {
                    st.set(rd, a)
                }
            }
            0x0b => {
                if sa != 0 {
                    return Err(MOut::Unmodelled);
                }
                if b != 0 {
                    st.set(rd, a)
                }
            }
            0x0c => return Err(MOut::Trap("syscall")),
            0x0d => return Err(MOut::Trap("break")),
            0x0f => {}
            0x10 => {
                if rs != 0 || rt != 0 || sa != 0 {
                    return Err(MOut::Unmodelled);
                }
                st.set(rd, st.hi)
            }
            0x11 => {
                if rt != 0 || rd != 0 || sa != 0 {
                    return Err(MOut::Unmodelled);
                }
                st.hi = a
            }
            0x12 => {
                if rs != 0 || rt != 0 || sa != 0 {
                    return Err(MOut::Unmodelled);
                }
                st.set(rd, st.lo)
            }
            0x13 => {
                if rt != 0 || rd != 0 || sa != 0 {
                    return Err(MOut::Unmodelled);
                }
                st.lo = a
            }
            0x18 | 0x19 => {
                if rd != 0 || sa != 0 {
                    return Err(MOut::Unmodelled);
                }
                let p: u64 = if funct == 0x18 { ((a as i32 as i64) * (b as i32 as i64)) as u64 } else { (a as u64) * (b as u64) };
                st.lo = p as u32;
                st.hi = (p >> 32) as u32;
            }
            0x1a | 0x1b => {
                if rd != 0 || sa != 0 {
                    return Err(MOut::Unmodelled);
                }
                if b == 0 {
                    st.hilo_unpredictable = true;
                } else if funct == 0x1a {
                    st.lo = (a as i32).wrapping_div(b as i32) as u32;
                    st.hi = (a as i32).wrapping_rem(b as i32) as u32;
                } else {
                    st.lo = a / b;
                    st.hi = a % b;
                }
            }
            0x20 | 0x22 => {
                if sa != 0 {
                    return Err(MOut::Unmodelled);
                }
                let r = if funct == 0x20 { (a as i32).checked_add(b as i32) } else { (a as i32).checked_sub(b as i32) };
                match r {
                    Some(v) => st.set(rd, v as u32),
                    None => return Err(MOut::Trap("overflow")),
                }
            }
            0x21 | 0x23 | 0x24 | 0x25 | 0x26 | 0x27 | 0x2a | 0x2b => {
                if sa != 0 {
                    return Err(MOut::Unmodelled);
                }
                st.set(
                    rd,
                    match funct {
                        0x21 => a.wrapping_add(b),
                        0x23 => a.wrapping_sub(b),
                        0x24 => a & b,
                        0x25 => a | b,
                        0x26 => a ^ b,
                        0x27 => !(a | b),
                        0x2a => ((a as i32) < (b as i32)) as u32,
                        _ => (a < b) as u32,
                    },
                )
            }
            0x34 => {
                if a == b {
                    return Err(MOut::Trap("teq"));
                }
            }
            _ => return Err(MOut::Unmodelled),
        },
        8 => match (a as i32).checked_add(sext16(imm) as i32) {
            Some(v) => st.set(rt, v as u32),
            None => return Err(MOut::Trap("overflow")),
        },
        9 => st.set(rt, a.wrapping_add(sext16(imm))),
        0xa => st.set(rt, ((a as i32) < (sext16(imm) as i32)) as u32),
        0xb => st.set(rt, (a < sext16(imm)) as u32),
        0xc => st.set(rt, a & imm),
        0xd => st.set(rt, a | imm),
        0xe => st.set(rt, a ^ imm),
        0xf => {
            if rs != 0 {
                return Err(MOut::Unmodelled);
            }
            st.set(rt, imm << 16)
        }
        0x1c => {
            if sa != 0 {
                return Err(MOut::Unmodelled);
            }
            match funct {
                0 | 1 | 4 | 5 => {
                    if rd != 0 {
                        return Err(MOut::Unmodelled);
                    }
                    let acc = ((st.hi as u64) << 32) | st.lo as u64;
                    let p: u64 = if funct == 0 || funct == 4 { ((a as i32 as i64) * (b as i32 as i64)) as u64 } else { (a as u64) * (b as u64) };
                    let r = if funct < 2 { acc.wrapping_add(p) } else { acc.wrapping_sub(p) };
                    st.lo = r as u32;
                    st.hi = (r >> 32) as u32;
                }
                2 => {
                    st.set(rd, (a as i32).wrapping_mul(b as i32) as u32);
                    st.hilo_unpredictable = true;
                }
                0x20 | 0x21 if rt != rd => return Err(MOut::Unpredictable), // "rt and rd must be the same"
                0x20 => st.set(rd, a.leading_zeros()),
                0x21 => st.set(rd, (!a).leading_zeros()),
                _ => return Err(MOut::Unmodelled),
            }
        }
        0x1f => {
            if funct == 0x3b {
                return Err(MOut::Trap("rdhwr"));
            }
            // MIPS32 DSP ASE, ADDU.QB group (funct 0x10): sa 0 = addu.qb, sa 1 = subu.qb: four independent
            // modulo-256 byte lanes (the DSPControl overflow flag is not part of the compared state)
            if funct == 0x10 && (sa == 0 || sa == 1) {
                let mut v = 0u32;
                for lane in 0..4 {
                    let x = (a >> (8 * lane)) & 0xff;
                    let y = (b >> (8 * lane)) & 0xff;
                    let r = if sa == 0 { x.wrapping_add(y) } else { x.wrapping_sub(y) } & 0xff;
                    v |= r << (8 * lane);
                }
                st.set(rd, v);
            } else {
                return Err(MOut::Unmodelled);
            }
        }
        0x20 | 0x21 | 0x23 | 0x24 | 0x25 | 0x30 => {
            let ea = a.wrapping_add(sext16(imm));
            let n = match op {
                0x20 | 0x24 => 1,
                0x21 | 0x25 => 2,
                _ => 4,
            };
            let v = st.load_val(ea, n).map_err(MOut::Fault)?;
            let v = match op {
                0x20 => v as u8 as i8 as i32 as u32,
                0x21 => v as u16 as i16 as i32 as u32,
                _ => v,
            };
            st.set(rt, v)
        }
        0x22 | 0x26 => {
            // lwl / lwr: merge the bytes of the containing aligned word
            let ea = a.wrapping_add(sext16(imm));
            let base = ea & !3;
            let bytes = st.load(base, 4).map_err(MOut::Fault)?;
            // word as the processor sees it
            let w = if st.big { u32::from_be_bytes([bytes[0], bytes[1], bytes[2], bytes[3]]) } else { u32::from_le_bytes([bytes[0], bytes[1], bytes[2], bytes[3]]) };
            let vaddr = ea & 3;
            let byte = if st.big { vaddr } else { vaddr ^ 3 }; // big-endian byte number within the word
            let v = if op == 0x22 {
                // lwl: most significant part
                let sh = 8 * byte;
                (w << sh) | (b & ((1u64 << sh) as u32).wrapping_sub(1))
            } else {
                let sh = 8 * (3 - byte);
                let keep = if sh == 0 { 0 } else { !0u32 << (32 - sh) };
                (w >> sh) | (b & keep)
            };
            st.set(rt, v)
        }
        0x28 | 0x29 | 0x2b => {
            let ea = a.wrapping_add(sext16(imm));
            let n = match op {
                0x28 => 1,
                0x29 => 2,
                _ => 4,
            };
            st.store_val(ea, n, b).map_err(MOut::Fault)?;
        }
        0x2a | 0x2e => {
            // swl / swr
            let ea = a.wrapping_add(sext16(imm));
            let base = ea & !3;
            let vaddr = ea & 3;
            let byte = if st.big { vaddr } else { vaddr ^ 3 };
            let be = b.to_be_bytes(); // register bytes, most significant first
            for k in 0..4u32 {
                // k = big-endian byte number inside the aligned word
                let write = if op == 0x2a { k >= byte } else { k <= byte };
                if write {
                    let src = if op == 0x2a { (k - byte) as usize } else { (3 - (byte - k)) as usize };
                    let addr = if st.big { base + k } else { base + (3 - k) };
                    st.mem.insert(addr, be[src]);
                }
            }
        }
        0x33 => {}
        0x38 => {
            let ea = a.wrapping_add(sext16(imm));
            st.store_val(ea, 4, b).map_err(MOut::Fault)?;
            st.set(rt, 1);
        }
        _ => return Err(MOut::Unmodelled),
    }
    Ok(())
}

/// Execute the instruction at pc; for a branch `delay` is the word in its delay slot.
pub fn step(st: &mut MState, pc: u32, word: u32, delay: Option<u32>) -> MOut {
    if !is_branch(word) {
        return match exec_simple(st, word) {
            Ok(()) => MOut::Next(pc.wrapping_add(4)),
            Err(o) => o,
        };
    }
    let op = word >> 26;
    let rs = ((word >> 21) & 0x1f) as usize;
    let rt = ((word >> 16) & 0x1f) as usize;
    let rd = ((word >> 11) & 0x1f) as usize;
    let funct = word & 0x3f;
    let imm = word & 0xffff;
    let (a, b) = (st.r[rs], st.r[rt]);
    let btarget = pc.wrapping_add(4).wrapping_add(sext16(imm) << 2);
    let jtarget = (pc.wrapping_add(4) & 0xf000_0000) | ((word & 0x03ff_ffff) << 2);
    // condition, target and link are determined by the branch itself, from the pre-state
    let (taken, target, link): (bool, u32, Option<usize>) = match op {
        0 => {
            if funct == 8 {
                if rt != 0 || rd != 0 {
                    return MOut::Unmodelled;
                }
                (true, a, None)
            } else {
                if rt != 0 {
                    return MOut::Unmodelled;
                }
                if rs == rd {
                    return MOut::Unpredictable; // "rs and rd must not be equal"
                }
                (true, a, Some(rd))
            }
        }
        1 => match rt {
            0 => ((a as i32) < 0, btarget, None),
            1 => ((a as i32) >= 0, btarget, None),
            0x10 | 0x11 if rs == 31 => return MOut::Unpredictable, // "GPR 31 must not be used for rs"
            0x10 => ((a as i32) < 0, btarget, Some(31)),
            0x11 => ((a as i32) >= 0, btarget, Some(31)),
            _ => return MOut::Unmodelled,
        },
        2 => (true, jtarget, None),
        3 => (true, jtarget, Some(31)),
        4 => (a == b, btarget, None),
        5 => (a != b, btarget, None),
        6 => {
            if rt != 0 {
                return MOut::Unmodelled;
            }
            ((a as i32) <= 0, btarget, None)
        }
        7 => {
            if rt != 0 {
                return MOut::Unmodelled;
            }
            ((a as i32) > 0, btarget, None)
        }
        _ => return MOut::Unmodelled,
    };
    if let Some(l) = link {
        st.set(l, pc.wrapping_add(8));
    }
    let d = match delay {
        Some(d) => d,
        None => return MOut::Unmodelled,
    };
    if is_branch(d) {
        return MOut::Unpredictable;
    }
    match exec_simple(st, d) {
        Ok(()) => {}
        Err(o) => return o,
    }
    MOut::Next(if taken { target } else { pc.wrapping_add(8) })
}
