fn main(){}
