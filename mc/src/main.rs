//! fv — falcon verification driver. `fv <id> <quick|thorough>` orchestrates worker sub-processes
//! (`--shard i/n`), merges what they observed, writes evidence and prints verdict lines.
mod archs;
mod bv;
mod explore;
mod gen;
mod isa_a64;
mod isa_mips;
mod isa_ppc;
mod native;
mod lifter;
mod x86gen;
mod refil;
mod props;
mod report;
mod util;

use report::{Acc, Tier};
use serde_json::Value;
use std::io::Write;
use std::time::{Duration, Instant};

pub struct Ctx {
    pub tier: Tier,
    pub shard: u64,
    pub nshards: u64,
    pub seed: i64,
    pub trace_path: Option<String>,
    trace: Option<std::cell::RefCell<std::fs::File>>,
}
impl Ctx {
    /// Is case number `n` of an orderly enumeration handled by this worker?
    pub fn mine(&self, n: u64) -> bool {
        n % self.nshards == self.shard
    }
    /// In trace mode, log the label of the case about to run (flushed), so that an abort or hang
    /// can be attributed to it.
    pub fn trace(&self, label: impl FnOnce() -> String) {
        if let Some(f) = &self.trace {
            let mut f = f.borrow_mut();
            let _ = writeln!(f, "{}", label());
            let _ = f.flush();
        }
    }
    pub fn tracing(&self) -> bool {
        self.trace.is_some()
    }
}

pub struct Prop {
    pub id: &'static str,
    pub describe: fn() -> report::Describe,
    pub run: fn(&Ctx) -> Acc,
    pub replay: fn(&Value) -> Acc,
    /// number of worker processes for a tier
    pub shards: fn(Tier) -> u64,
    /// wall-clock limit per worker, seconds
    pub timeout_s: fn(Tier) -> u64,
    /// address-space limit per worker, bytes
    pub mem_limit: u64,
}

fn usage() -> ! {
    eprintln!("usage: fv <id> <quick|thorough> | fv <id> --replay <file> | fv list");
    std::process::exit(2)
}

fn main() {
    let args: Vec<String> = std::env::args().collect();
    if args.len() < 2 {
        usage()
    }
    if args[1] == "list" {
        for p in props::all() {
            println!("{}", p.id);
        }
        return;
    }
    if args[1] == "selftest" {
        bv::selftest();
        match native::selftest() {
            Ok(()) => println!("native trampoline ok"),
            Err(e) => {
                println!("native trampoline FAILED: {}", e);
                std::process::exit(2)
            }
        }
        println!("selftest ok");
        return;
    }
    let id = args[1].to_uppercase();
    let prop = match props::all().into_iter().find(|p| p.id == id) {
        Some(p) => p,
        None => {
            eprintln!("MACHINERY: unknown property {}", id);
            std::process::exit(2)
        }
    };
    let mut tier = match std::env::var("VERIF_TIER").ok().as_deref() {
        Some("thorough") => Tier::Thorough,
        _ => Tier::Quick,
    };
    let seed: i64 = std::env::var("VERIF_SEED")
        .ok()
        .and_then(|s| s.parse().ok())
        .unwrap_or(0);
    let mut shard: Option<(u64, u64)> = None;
    let mut out: Option<String> = None;
    let mut trace: Option<String> = None;
    let mut replay: Option<String> = None;
    let mut i = 2;
    while i < args.len() {
        match args[i].as_str() {
            "quick" => tier = Tier::Quick,
            "thorough" => tier = Tier::Thorough,
            "--tier" => {
                i += 1;
                tier = if args.get(i).map(|s| s.as_str()) == Some("thorough") {
                    Tier::Thorough
                } else {
                    Tier::Quick
                }
            }
            "--shard" => {
                i += 1;
                let s = args.get(i).unwrap_or_else(|| usage());
                let mut it = s.split('/');
                shard = Some((
                    it.next().unwrap().parse().unwrap(),
                    it.next().unwrap().parse().unwrap(),
                ));
            }
            "--out" => {
                i += 1;
                out = args.get(i).cloned()
            }
            "--trace" => {
                i += 1;
                trace = args.get(i).cloned()
            }
            "--replay" => {
                i += 1;
                replay = args.get(i).cloned()
            }
            _ => usage(),
        }
        i += 1;
    }
    util::silence_panics();

    if let Some(path) = replay {
        let body: Value = serde_json::from_str(&std::fs::read_to_string(&path).unwrap_or_else(|e| {
            eprintln!("MACHINERY: cannot read {}: {}", path, e);
            std::process::exit(2)
        }))
        .unwrap_or_else(|e| {
            eprintln!("MACHINERY: cannot parse {}: {}", path, e);
            std::process::exit(2)
        });
        let case = body.get("case").cloned().unwrap_or(body.clone());
        let acc = (prop.replay)(&case);
        if acc.findings.is_empty() {
            println!("replay: no violation reproduced for {}", path);
            std::process::exit(0)
        }
        for (k, f) in &acc.findings {
            println!("  violation key={} :: {}", k, f.what);
            println!("VIOLATION property={} replay={}", prop.id, path);
        }
        std::process::exit(1)
    }

    if let Some((s, n)) = shard {
        // worker
        util::tune_malloc();
        util::limit_memory(prop.mem_limit);
        let ctx = Ctx {
            tier,
            shard: s,
            nshards: n,
            seed,
            trace_path: trace.clone(),
            trace: trace.map(|p| {
                std::cell::RefCell::new(
                    std::fs::OpenOptions::new()
                        .create(true)
                        .write(true)
                        .truncate(true)
                        .open(p)
                        .expect("trace file"),
                )
            }),
        };
        let acc = (prop.run)(&ctx);
        let s = serde_json::to_string(&acc).unwrap();
        match out {
            Some(p) => std::fs::write(p, s).expect("write worker output"),
            None => println!("{}", s),
        }
        return;
    }

    // orchestrator
    let start = Instant::now();
    if bv::selftest_quiet().is_err() {
        eprintln!("MACHINERY: reference bit-vector self-test failed");
        std::process::exit(2)
    }
    let n = (prop.shards)(tier).max(1);
    let timeout = Duration::from_secs((prop.timeout_s)(tier));
    let tmp = report::verif_dir().join("target").join("tmp");
    let _ = std::fs::create_dir_all(&tmp);
    // Remove what killed runs left behind (private binaries, worker outputs, traces of processes that no longer exist).
    if let Ok(rd) = std::fs::read_dir(&tmp) {
        for ent in rd.flatten() {
            let name = ent.file_name().to_string_lossy().to_string();
            let pid: Option<u32> = if let Some(p) = name.strip_prefix("fv-") {
                p.parse().ok()
            } else if name.ends_with(".trace") || name.ends_with(".json") {
                name.split('-').nth(1).and_then(|p| p.parse().ok())
            } else if name.starts_with("c19-link-") {
                name.split('-').nth(2).and_then(|p| p.parse().ok())
            } else {
                None
            };
            if let Some(pid) = pid {
                if !std::path::Path::new(&format!("/proc/{}", pid)).exists() {
                    let _ = if ent.path().is_dir() { std::fs::remove_dir_all(ent.path()) } else { std::fs::remove_file(ent.path()) };
                }
            }
        }
    }
    // Workers run from a private copy of the binary: a concurrent rebuild (another check started while a long
    // run is in progress) replaces target/release/fv and must not change or break the workers of this run.
    let exe = {
        let src = std::env::current_exe().expect("current_exe");
        let dst = tmp.join(format!("fv-{}", std::process::id()));
        match std::fs::copy(&src, &dst) {
            Ok(_) => dst,
            Err(_) => src,
        }
    };
    let private_exe = exe.clone();
    let cleanup = move || {
        if private_exe.starts_with(report::verif_dir().join("target").join("tmp")) {
            let _ = std::fs::remove_file(&private_exe);
        }
    };
    let spawn = |s: u64, tracefile: Option<&std::path::Path>| {
        let outp = tmp.join(format!("{}-{}-{}.json", prop.id, std::process::id(), s));
        let _ = std::fs::remove_file(&outp);
        let mut c = std::process::Command::new(&exe);
        c.arg(prop.id)
            .arg(tier.name())
            .arg("--shard")
            .arg(format!("{}/{}", s, n))
            .arg("--out")
            .arg(&outp)
            .env("VERIF_SEED", seed.to_string())
            .stderr(std::process::Stdio::null());
        if let Some(t) = tracefile {
            c.arg("--trace").arg(t);
        }
        (c.spawn().expect("spawn worker"), outp)
    };
    let mut children: Vec<_> = (0..n).map(|s| (s, spawn(s, None))).collect();
    let mut merged = Acc::new();
    let mut failed: Vec<(u64, String)> = Vec::new();
    let wait_all = |children: &mut Vec<(u64, (std::process::Child, std::path::PathBuf))>,
                    merged: &mut Acc,
                    failed: &mut Vec<(u64, String)>,
                    began: Instant| {
        let mut pending: Vec<bool> = vec![true; children.len()];
        loop {
            let mut any = false;
            for (idx, (s, (ch, outp))) in children.iter_mut().enumerate() {
                if !pending[idx] {
                    continue;
                }
                match ch.try_wait() {
                    Ok(Some(st)) => {
                        pending[idx] = false;
                        let ok = st.success();
                        let body = std::fs::read_to_string(&*outp).ok();
                        let _ = std::fs::remove_file(&*outp);
                        match (ok, body.and_then(|b| serde_json::from_str::<Acc>(&b).ok())) {
                            (true, Some(a)) => merged.merge(a),
                            _ => {
                                if st.code() == Some(101) {
                                    // an uncaught panic in the harness itself (falcon panics are caught): machinery
                                    eprintln!("MACHINERY: worker {} panicked in harness code (exit 101); run `fv {} {} --shard {}/{}` to see it", s, prop.id, tier.name(), s, n);
                                    let _ = std::fs::remove_file(report::verif_dir().join("target").join("tmp").join(format!("fv-{}", std::process::id())));
                                    std::process::exit(2);
                                }
                                failed.push((*s, format!("worker exit status {:?}", st)))
                            }
                        }
                    }
                    Ok(None) => {
                        any = true;
                        if began.elapsed() > timeout {
                            let _ = ch.kill();
                            let _ = ch.wait();
                            pending[idx] = false;
                            let _ = std::fs::remove_file(&*outp);
                            failed.push((*s, format!("worker exceeded {} s", timeout.as_secs())));
                        }
                    }
                    Err(e) => {
                        pending[idx] = false;
                        failed.push((*s, format!("wait error {}", e)));
                    }
                }
            }
            if !any {
                break;
            }
            std::thread::sleep(Duration::from_millis(20));
        }
    };
    wait_all(&mut children, &mut merged, &mut failed, start);

    // Attribute worker deaths / hangs to a single case by re-running those shards in trace mode.
    let mut machinery_failure = false;
    if !failed.is_empty() {
        let first_failed = std::mem::take(&mut failed);
        let began = Instant::now();
        let mut traced: Vec<(u64, (std::process::Child, std::path::PathBuf))> = Vec::new();
        let mut tracefiles = Vec::new();
        for (s, why) in &first_failed {
            let tf = tmp.join(format!("{}-{}-{}.trace", prop.id, std::process::id(), s));
            tracefiles.push((*s, tf.clone(), why.clone()));
            traced.push((*s, spawn(*s, Some(&tf))));
        }
        let mut dummy = Acc::new();
        let mut failed2 = Vec::new();
        wait_all(&mut traced, &mut dummy, &mut failed2, began);
        for (s, tf, why) in tracefiles {
            let again = failed2.iter().find(|(s2, _)| *s2 == s);
            // A traced worker that ran out of time is a hang only if it sat on one case: if the trace file was
            // still growing shortly before the deadline the worker was merely slow (loaded machine), which is a
            // machinery failure, never a verdict.
            if let Some((_, why2)) = again {
                if why2.contains("exceeded") {
                    let idle = std::fs::metadata(&tf).and_then(|m| m.modified()).ok().and_then(|m| m.elapsed().ok()).map(|d| d.as_secs()).unwrap_or(0);
                    if idle < 120 {
                        eprintln!("MACHINERY: shard {} ran out of time ({}; first run: {}) while still making progress (last case started {} s before the deadline)", s, why2, why, idle);
                        let _ = std::fs::remove_file(&tf);
                        machinery_failure = true;
                        continue;
                    }
                }
            }
            let label = std::fs::read_to_string(&tf)
                .ok()
                .and_then(|t| t.lines().last().map(|l| l.to_string()));
            let _ = std::fs::remove_file(&tf);
            match (again, label) {
                (Some((_, why2)), Some(label)) => {
                    // label format: "<key>\t<json case>" or free text
                    let mut it = label.splitn(2, '\t');
                    let key = it.next().unwrap_or("").to_string();
                    let case: Value = it
                        .next()
                        .and_then(|c| serde_json::from_str(c).ok())
                        .unwrap_or(Value::String(label.clone()));
                    merged.violation(
                        format!("{}|abort-or-hang|{}", prop.id, key),
                        format!(
                            "worker died or hung while executing this case ({}; first run: {})",
                            why2, why
                        ),
                        case,
                    );
                }
                (None, _) => {
                    // The failure did not reproduce in trace mode: merge nothing, machinery failure.
                    eprintln!(
                        "MACHINERY: shard {} failed ({}) but ran clean in trace mode",
                        s, why
                    );
                    machinery_failure = true;
                }
                (Some((_, why2)), None) => {
                    eprintln!(
                        "MACHINERY: shard {} failed ({}) and trace run failed ({}) without a case label",
                        s, why, why2
                    );
                    machinery_failure = true;
                }
            }
        }
    }
    cleanup();
    if machinery_failure {
        std::process::exit(2)
    }
    let d = (prop.describe)();
    let code = report::finish(&d, tier, seed, merged, start.elapsed().as_secs_f64(), true);
    std::process::exit(code)
}
