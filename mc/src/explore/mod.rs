pub mod history;
