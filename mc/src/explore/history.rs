//! History explorer: explicit-state breadth-first search (stateright) over operation sequences
//! applied to a REAL falcon object. falcon objects hold `Rc` and are not `Send`, so a model state
//! is `(history, depth, canon)`, hashed and compared on `(depth, canon)`, where `canon` is the
//! canonical dump of the real object's internals plus the reference model. The real object is
//! rebuilt by replaying `history` inside `next_state`; every explored transition is therefore an
//! implementation step, and merging two histories is sound exactly when `canon` contains every
//! field the implementation's future behaviour depends on (argued per property).
use crate::report::Acc;
use serde_json::Value;
use stateright::{Checker, Model, Property};
use std::hash::{Hash, Hasher};
use std::sync::{Arc, Mutex};

pub trait Subject: Send + Sync + 'static {
    type Op: Clone + std::fmt::Debug + PartialEq + Send + Sync + 'static;
    /// real object + reference model
    type Obj;
    fn init(&self) -> Self::Obj;
    /// operations enabled after `hist` (may depend on the object, e.g. existing ids)
    fn ops(&self, obj: &Self::Obj, hist: &[Self::Op]) -> Vec<Self::Op>;
    /// apply to real object and reference; report violations observed on the transition itself
    fn apply(&self, obj: &mut Self::Obj, op: &Self::Op, acc: &mut Acc, hist: &[Self::Op]);
    /// canonical bytes of the real object's internals (+ reference)
    fn canon(&self, obj: &Self::Obj) -> Vec<u8>;
    /// invariant evaluated in every reachable state
    fn check(&self, obj: &Self::Obj, hist: &[Self::Op], acc: &mut Acc);
    fn op_json(&self, op: &Self::Op) -> Value;
    /// replayable description of a history (+ the operation about to be applied)
    fn case_json(&self, hist: &[Self::Op], op: Option<&Self::Op>) -> Value {
        let mut v: Vec<Value> = hist.iter().map(|o| self.op_json(o)).collect();
        if let Some(o) = op {
            v.push(self.op_json(o));
        }
        serde_json::json!({ "history": v })
    }
}

#[derive(Clone, Debug)]
pub struct HState<Op> {
    pub hist: Vec<Op>,
    pub canon: Arc<Vec<u8>>,
    /// Some(depth) in depth-bounded searches (depth is part of the key so that the explored set
    /// does not depend on thread timing); None in closing searches (key = canon only).
    pub keyed_depth: Option<usize>,
}
impl<Op> Hash for HState<Op> {
    fn hash<H: Hasher>(&self, h: &mut H) {
        self.keyed_depth.hash(h);
        self.canon.hash(h);
    }
}
impl<Op> PartialEq for HState<Op> {
    fn eq(&self, o: &Self) -> bool {
        self.keyed_depth == o.keyed_depth && self.canon == o.canon
    }
}
impl<Op> Eq for HState<Op> {}

pub struct HModel<S: Subject> {
    pub subject: Arc<S>,
    pub acc: Arc<Mutex<Acc>>,
    pub max_depth: usize,
    /// true: key states on canon only (closing search, no depth bound needed)
    pub closing: bool,
    /// trace mode: every history is logged (flushed) before it is applied/checked, so that an abort
    /// (stack overflow, allocation failure) or a hang can be attributed to it
    pub trace: Option<Mutex<std::fs::File>>,
    /// states in which a violation was observed (on the transition into them or by the invariant): they are
    /// reported and NOT expanded — the successors of a corrupted object say nothing more, and a corrupted object
    /// may have a state space that no longer closes
    pub bad: Mutex<std::collections::HashSet<u64>>,
}

fn state_key<Op>(s: &HState<Op>) -> u64 {
    let mut h = std::collections::hash_map::DefaultHasher::new();
    s.hash(&mut h);
    h.finish()
}

impl<S: Subject> HModel<S> {
    fn log(&self, hist: &[S::Op], op: Option<&S::Op>) {
        if let Some(t) = &self.trace {
            use std::io::Write;
            let mut f = t.lock().unwrap();
            let _ = writeln!(f, "history\t{}", self.subject.case_json(hist, op));
            let _ = f.flush();
        }
    }
    fn rebuild(&self, hist: &[S::Op]) -> S::Obj {
        let mut scratch = Acc::new();
        let mut obj = self.subject.init();
        for (i, op) in hist.iter().enumerate() {
            self.subject.apply(&mut obj, op, &mut scratch, &hist[..i]);
        }
        obj
    }
}

impl<S: Subject> Model for HModel<S> {
    type State = HState<S::Op>;
    type Action = S::Op;
    fn init_states(&self) -> Vec<Self::State> {
        let obj = self.subject.init();
        vec![HState {
            hist: vec![],
            canon: Arc::new(self.subject.canon(&obj)),
            keyed_depth: if self.closing { None } else { Some(0) },
        }]
    }
    fn actions(&self, state: &Self::State, actions: &mut Vec<Self::Action>) {
        if !self.closing && state.hist.len() >= self.max_depth {
            return;
        }
        if self.bad.lock().unwrap().contains(&state_key(state)) {
            return;
        }
        let obj = self.rebuild(&state.hist);
        actions.extend(self.subject.ops(&obj, &state.hist));
    }
    fn next_state(&self, last: &Self::State, action: Self::Action) -> Option<Self::State> {
        self.log(&last.hist, Some(&action));
        let mut obj = self.rebuild(&last.hist);
        let mut local = Acc::new();
        self.subject.apply(&mut obj, &action, &mut local, &last.hist);
        // the invariant is also evaluated here in trace mode so that the culprit is the logged history
        if self.trace.is_some() {
            let mut h2 = last.hist.clone();
            h2.push(action.clone());
            let mut scratch = Acc::new();
            self.subject.check(&obj, &h2, &mut scratch);
        }
        local.count("transitions", 1);
        let mut hist = last.hist.clone();
        hist.push(action);
        let canon = self.subject.canon(&obj);
        let violated = !local.findings.is_empty();
        self.acc.lock().unwrap().merge(local);
        let keyed_depth = if self.closing { None } else { Some(hist.len()) };
        let next = HState {
            hist,
            canon: Arc::new(canon),
            keyed_depth,
        };
        if violated {
            self.bad.lock().unwrap().insert(state_key(&next));
        }
        Some(next)
    }
    fn properties(&self) -> Vec<Property<Self>> {
        vec![Property::always("invariant (violations are collected, see evidence)", |m: &HModel<S>, s: &HState<S::Op>| {
            let obj = m.rebuild(&s.hist);
            let mut local = Acc::new();
            m.subject.check(&obj, &s.hist, &mut local);
            local.count("states", 1);
            local.outcome(&*s.canon);
            if !local.findings.is_empty() {
                m.bad.lock().unwrap().insert(state_key(s));
            }
            m.acc.lock().unwrap().merge(local);
            true
        })]
    }
}

/// Run the search to the given depth with all cores; returns what was observed.
pub fn explore<S: Subject>(subject: S, max_depth: Option<usize>, threads: usize) -> Acc {
    explore_traced(subject, max_depth, threads, None)
}

/// `trace_path`: append-mode log of every history (single-threaded when given)
pub fn explore_traced<S: Subject>(subject: S, max_depth: Option<usize>, threads: usize, trace_path: Option<&str>) -> Acc {
    let acc = Arc::new(Mutex::new(Acc::new()));
    let model = HModel {
        subject: Arc::new(subject),
        acc: acc.clone(),
        max_depth: max_depth.unwrap_or(usize::MAX),
        closing: max_depth.is_none(),
        trace: trace_path.map(|p| Mutex::new(std::fs::OpenOptions::new().create(true).append(true).open(p).expect("trace file"))),
        bad: Mutex::new(std::collections::HashSet::new()),
    };
    let threads = if trace_path.is_some() { 1 } else { threads };
    let checker = model.checker().threads(threads).spawn_bfs().join();
    let unique = checker.unique_state_count();
    let generated = checker.state_count();
    let depth = checker.max_depth();
    drop(checker);
    let mut a = std::mem::take(&mut *acc.lock().unwrap());
    a.counters.insert("stateright_unique_states".into(), unique as u64);
    a.counters.insert("stateright_generated_states".into(), generated as u64);
    a.max("max_depth", depth as u64);
    a
}
