//! C16 — backing memory is a permissioned byte map under overlapping writes.
use crate::explore::history::{explore_traced, Subject};
use crate::report::{Acc, Describe};
use crate::util::{guarded, panic_class};
use crate::{Ctx, Prop};
use falcon::architecture::Endian;
use falcon::memory::backing::Memory;
use falcon::memory::MemoryPermissions as P;
use serde_json::{json, Value};
use std::collections::BTreeMap;

pub fn prop() -> Prop {
    Prop {
        id: "C16",
        describe,
        run,
        replay,
        shards: |_| 2, // one stateright search per endianness, each multi-threaded
        timeout_s: |t| if t.thorough() { 3000 } else { 300 },
        mem_limit: 24 << 30,
    }
}

fn describe() -> Describe {
    Describe {
        id: "C16",
        level: "model_checking",
        rule: "stateright BFS over ALL histories of set_memory(a,len,perm) (a in an 8-byte window, len 0..5 incl. the empty write, \
               3 permission values, data bytes tagged by operation ordinal) and set32 at every mapped address, to the stated depth, \
               both endiannesses; in every reached state get8/permissions at every window address, section disjointness, \
               get(a,8|16|24|32|64) and get32 are compared with a byte/permission-map reference. State key = depth + Debug dump of \
               the real Memory (all sections, data, permissions). Non-trivial = state with at least one mapped byte.",
        assumptions: vec![
            "set32 on an unmapped address is not called (the statement makes no claim there; the code panics by design)".into(),
            "get32 spanning two adjacent sections is only required not to panic and not to return wrong bytes".into(),
            "address arithmetic wrapping at 2^64 is not exercised".into(),
        ],
        engine: "stateright 0.31 spawn_bfs over the real object (history replay), 8 threads per endianness",
    }
}

const LO: u64 = 0x10;
const WIN_LO: u64 = 0x0c;
const WIN_HI: u64 = 0x20;

#[derive(Clone, Debug, PartialEq)]
pub enum Op {
    Set { a: u64, len: usize, perm: u32 },
    Set32 { a: u64 },
}

pub struct Sub {
    endian: Endian,
    full: bool,
}
pub struct Obj {
    m: Memory,
    r: BTreeMap<u64, (u8, u32)>,
}

fn perms() -> [u32; 3] {
    [P::READ.bits(), (P::READ | P::WRITE).bits(), (P::READ | P::EXECUTE).bits()]
}

fn hist_json(s: &Sub, hist: &[Op], op: Option<&Op>) -> Value {
    let mut v: Vec<Value> = hist.iter().map(|o| s.op_json(o)).collect();
    if let Some(o) = op {
        v.push(s.op_json(o));
    }
    json!({"endian": format!("{:?}", s.endian), "history": v})
}

fn data_for(depth: usize, len: usize) -> Vec<u8> {
    (0..len).map(|i| (((depth + 1) as u8) << 4) | (i as u8)).collect()
}

impl Subject for Sub {
    type Op = Op;
    type Obj = Obj;
    fn init(&self) -> Obj {
        Obj { m: Memory::new(self.endian.clone()), r: BTreeMap::new() }
    }
    fn ops(&self, o: &Obj, _hist: &[Op]) -> Vec<Op> {
        let mut v = Vec::new();
        let (na, lens, np): (u64, &[usize], usize) = if self.full { (8, &[0, 1, 2, 3, 4, 5], 3) } else { (6, &[0, 1, 2, 3, 5], 2) };
        for a in LO..LO + na {
            for &len in lens {
                for &perm in &perms()[..np] {
                    v.push(Op::Set { a, len, perm });
                }
            }
        }
        for a in WIN_LO..WIN_HI {
            if o.r.contains_key(&a) {
                v.push(Op::Set32 { a });
            }
        }
        v
    }
    fn apply(&self, o: &mut Obj, op: &Op, acc: &mut Acc, hist: &[Op]) {
        match op {
            Op::Set { a, len, perm } => {
                let data = data_for(hist.len(), *len);
                let m = &mut o.m;
                let d2 = data.clone();
                let p = P::from_bits_truncate(*perm);
                if let Err(pn) = guarded(move || m.set_memory(*a, d2, p)) {
                    acc.violation(
                        format!("C16|set_memory|panic:{}|len={}", panic_class(&pn), if *len == 0 { "0" } else { ">0" }),
                        format!("set_memory panicked: {}", pn),
                        hist_json(self, hist, Some(op)),
                    );
                }
                for (i, b) in data.iter().enumerate() {
                    o.r.insert(*a + i as u64, (*b, *perm));
                }
            }
            Op::Set32 { a } => {
                // is [a, a+4) inside one section of the real object?
                let inside = o
                    .m
                    .sections()
                    .iter()
                    .any(|(sa, s)| *sa <= *a && *a + 4 <= *sa + s.len() as u64);
                let mapped = o.m.sections().iter().any(|(sa, s)| *sa <= *a && *a < *sa + s.len() as u64);
                if !mapped {
                    // reference says mapped but the real object disagrees: reported by check(); set32
                    // would panic by design, do not call it
                    return;
                }
                let v: u32 = 0xA1B2C3D4 ^ ((hist.len() as u32) << 8);
                let m = &mut o.m;
                match guarded(move || m.set32(*a, v)) {
                    Err(pn) => acc.violation(
                        format!("C16|set32|panic:{}|{}", panic_class(&pn), if inside { "inside" } else { "straddling" }),
                        format!("set32 panicked: {}", pn),
                        hist_json(self, hist, Some(op)),
                    ),
                    Ok(res) => {
                        if res.is_ok() != inside {
                            acc.violation(
                                format!("C16|set32|result|{}", if inside { "error-inside-region" } else { "ok-straddling" }),
                                format!("set32 at {:#x} returned ok={} but inside-one-region={}", a, res.is_ok(), inside),
                                hist_json(self, hist, Some(op)),
                            );
                        }
                    }
                }
                if inside {
                    let bytes = match self.endian {
                        Endian::Big => v.to_be_bytes(),
                        Endian::Little => v.to_le_bytes(),
                    };
                    for (i, b) in bytes.iter().enumerate() {
                        if let Some(e) = o.r.get_mut(&(*a + i as u64)) {
                            e.0 = *b;
                        }
                    }
                }
            }
        }
    }
    fn canon(&self, o: &Obj) -> Vec<u8> {
        format!("{:?}|{:?}", o.m, o.r).into_bytes()
    }
    fn check(&self, o: &Obj, hist: &[Op], acc: &mut Acc) {
        acc.count("evaluations", 1);
        if !o.r.is_empty() {
            acc.count("nontrivial", 1);
        }
        let case = || hist_json(self, hist, None);
        let last = match hist.last() {
            Some(Op::Set { len: 0, .. }) => "after-empty-write",
            Some(Op::Set { .. }) => "after-write",
            Some(Op::Set32 { .. }) => "after-set32",
            None => "initial",
        };
        let m = &o.m;
        // sections pairwise disjoint
        let secs: Vec<(u64, usize)> = m.sections().iter().map(|(a, s)| (*a, s.len())).collect();
        for w in secs.windows(2) {
            if w[0].0 + w[0].1 as u64 > w[1].0 {
                acc.violation(format!("C16|sections|overlap|{}", last), format!("sections overlap: {:?}", secs), case());
            }
        }
        for a in WIN_LO..WIN_HI {
            let exp = o.r.get(&a);
            match guarded(|| (m.get8(a), m.permissions(a).map(|p| p.bits()))) {
                Err(pn) => acc.violation(format!("C16|get8|panic:{}|{}", panic_class(&pn), last), format!("get8/permissions({:#x}) panicked: {}", a, pn), case()),
                Ok((b, p)) => {
                    if b != exp.map(|e| e.0) {
                        acc.violation(
                            format!("C16|get8|{}|{}", if exp.is_none() { "unmapped-expected" } else if b.is_none() { "mapped-expected" } else { "wrong-byte" }, last),
                            format!("get8({:#x}) = {:?} expected {:?}", a, b, exp.map(|e| e.0)),
                            case(),
                        );
                    }
                    if p != exp.map(|e| e.1) {
                        acc.violation(format!("C16|permissions|mismatch|{}", last), format!("permissions({:#x}) = {:?} expected {:?}", a, p, exp.map(|e| e.1)), case());
                    }
                }
            }
            for bits in [8usize, 16, 24, 32, 64] {
                let n = bits / 8;
                let bytes: Option<Vec<u8>> = (0..n as u64).map(|i| o.r.get(&(a + i)).map(|e| e.0)).collect();
                let exp: Option<u128> = bytes.map(|bs| {
                    let mut v = 0u128;
                    match self.endian {
                        Endian::Big => bs.iter().for_each(|b| v = (v << 8) | *b as u128),
                        Endian::Little => bs.iter().rev().for_each(|b| v = (v << 8) | *b as u128),
                    }
                    v
                });
                match guarded(|| m.get(a, bits)) {
                    Err(pn) => acc.violation(
                        format!("C16|get|panic:{}|{}", panic_class(&pn), if exp.is_none() { "range-partly-unmapped" } else { "range-mapped" }),
                        format!("get({:#x},{}) panicked: {}", a, bits, pn),
                        case(),
                    ),
                    Ok(got) => {
                        let g = got.as_ref().map(|c| (c.value_u128().unwrap_or(u128::MAX), c.bits()));
                        if g != exp.map(|v| (v, bits)) {
                            acc.violation(
                                format!("C16|get|mismatch|bits={},{}", bits, if exp.is_none() { "range-partly-unmapped" } else { "range-mapped" }),
                                format!("get({:#x},{}) = {:?} expected {:?}", a, bits, g, exp),
                                case(),
                            );
                        }
                        acc.outcome(&(a, bits, exp));
                    }
                }
            }
            // odd widths are refused
            if let Ok(Some(_)) = guarded(|| m.get(a, 12)) {
                acc.violation("C16|get|accepted-non-byte-width|-", "get(_, 12) returned a value", case());
            }
            // get32
            let inside = secs.iter().any(|(sa, l)| *sa <= a && a + 4 <= *sa + *l as u64);
            let bytes: Option<Vec<u8>> = (0..4u64).map(|i| o.r.get(&(a + i)).map(|e| e.0)).collect();
            let exp32 = bytes.map(|b| match self.endian {
                Endian::Big => u32::from_be_bytes([b[0], b[1], b[2], b[3]]),
                Endian::Little => u32::from_le_bytes([b[0], b[1], b[2], b[3]]),
            });
            match guarded(|| m.get32(a)) {
                Err(pn) => acc.violation(format!("C16|get32|panic:{}|{}", panic_class(&pn), last), format!("get32({:#x}) panicked: {}", a, pn), case()),
                Ok(got) => {
                    let bad = if inside { got != exp32 || got.is_none() } else { got.is_some() && got != exp32 };
                    if bad {
                        acc.violation(
                            format!("C16|get32|mismatch|{}", if inside { "inside" } else { "straddling" }),
                            format!("get32({:#x}) = {:?} expected {:?} (inside one region: {})", a, got, exp32, inside),
                            case(),
                        );
                    }
                }
            }
        }
    }
    fn case_json(&self, hist: &[Op], op: Option<&Op>) -> Value {
        hist_json(self, hist, op)
    }
    fn op_json(&self, op: &Op) -> Value {
        match op {
            Op::Set { a, len, perm } => json!(["set_memory", a, len, perm]),
            Op::Set32 { a } => json!(["set32", a]),
        }
    }
}

fn op_parse(v: &Value) -> Op {
    match v[0].as_str().unwrap() {
        "set_memory" => Op::Set { a: v[1].as_u64().unwrap(), len: v[2].as_u64().unwrap() as usize, perm: v[3].as_u64().unwrap() as u32 },
        _ => Op::Set32 { a: v[1].as_u64().unwrap() },
    }
}

fn run(ctx: &Ctx) -> Acc {
    let endian = if ctx.shard % 2 == 0 { Endian::Little } else { Endian::Big };
    if ctx.shard >= 2 {
        return Acc::new();
    }
    let mut acc = Acc::new();
    // reduced alphabet one level deeper, full alphabet at the base depth
    let (d_full, d_red) = if ctx.tier.thorough() { (3, 4) } else { (3, 3) };
    let a = explore_traced(Sub { endian: endian.clone(), full: true }, Some(d_full), 8, ctx.trace_path.as_deref());
    acc.count("max_depth_full_alphabet", 0);
    acc.max("max_depth_full_alphabet", d_full as u64);
    acc.merge(a);
    let a = explore_traced(Sub { endian: endian.clone(), full: false }, Some(d_red), 8, ctx.trace_path.as_deref());
    acc.max("max_depth_reduced_alphabet", d_red as u64);
    acc.merge(a);
    acc.count("traces", acc.get("states"));
    if ctx.shard == 0 {
        acc.sample(json!({"endian":"Little","history":[["set_memory",16,4,1],["set_memory",18,0,1]],"checked":"get8/permissions/get/get32 at 0x0c..0x20"}));
        acc.sample(json!({"endian":"Little","history":[["set_memory",16,5,3],["set32",17]]}));
    }
    acc
}

fn replay(case: &Value) -> Acc {
    let mut acc = Acc::new();
    let endian = if case["endian"].as_str() == Some("Big") { Endian::Big } else { Endian::Little };
    let s = Sub { endian, full: true };
    let mut o = s.init();
    let ops: Vec<Op> = case["history"].as_array().map(|h| h.iter().map(op_parse).collect()).unwrap_or_default();
    for (i, op) in ops.iter().enumerate() {
        s.apply(&mut o, op, &mut acc, &ops[..i]);
        s.check(&o, &ops[..=i], &mut acc);
    }
    acc
}
