//! C09 — the fixed-point engine returns the least solution of the data-flow equations.
use crate::report::{Acc, Describe};
use crate::util::{guarded, panic_class};
use crate::{Ctx, Prop};
use falcon::analysis::fixed_point::{fixed_point_backward, fixed_point_backward_options, fixed_point_forward, fixed_point_forward_options, FixedPointAnalysis};
use falcon::il::{self, FunctionLocation as FL};
use falcon::Error;
use serde_json::{json, Value};
use std::cmp::Ordering;
use std::collections::{BTreeMap, BTreeSet};

pub fn prop() -> Prop {
    Prop {
        id: "C09",
        describe,
        run,
        replay,
        shards: |_| 16,
        timeout_s: |t| if t.thorough() { 3000 } else { 300 },
        mem_limit: 4 << 30,
    }
}

fn describe() -> Describe {
    Describe {
        id: "C09",
        level: "model_checking",
        rule: "every CFG on <=3 blocks (all 2^(n*n) edge sets) x entry x exit x block sizes {0,1,2}^n (quick: {0,1}^n for n=3) x \
               harness-defined analyses {gen/kill over a 2-fact powerset, saturating counter on a 4-chain, flat constant lattice, \
               a NON-monotone 3-x} x rotations of the per-location transfer assignment x {forward default, forward force, forward \
               with step budgets 0,1,2,5, backward, backward force}. Oracle: location graph built by the harness + round-robin Kleene \
               iteration from 'no state'; for <=6 locations additionally brute-force search over ALL assignments for the least one \
               satisfying the equations. states = location-states compared, transitions = solver runs.",
        assumptions: vec![
            "monotone analyses treat 'no predecessor state' as the lattice bottom".into(),
            "for the non-monotone analysis and exhausted budgets only 'error, or a map satisfying every equation' is required".into(),
        ],
        engine: "grid enumerator over CFGs x analyses (16 processes), Kleene + brute-force least-solution oracles",
    }
}

#[derive(Clone, Debug, PartialEq)]
enum S {
    Set(u8),
    Chain(u8),
    Flat(u8), // 0 bottom, 1..=2 values, 9 top
}
impl PartialOrd for S {
    fn partial_cmp(&self, o: &S) -> Option<Ordering> {
        match (self, o) {
            (S::Set(a), S::Set(b)) => {
                if a == b {
                    Some(Ordering::Equal)
                } else if a & b == *a {
                    Some(Ordering::Less)
                } else if a & b == *b {
                    Some(Ordering::Greater)
                } else {
                    None
                }
            }
            (S::Chain(a), S::Chain(b)) => a.partial_cmp(b),
            (S::Flat(a), S::Flat(b)) => {
                if a == b {
                    Some(Ordering::Equal)
                } else if *a == 0 || *b == 9 {
                    Some(Ordering::Less)
                } else if *b == 0 || *a == 9 {
                    Some(Ordering::Greater)
                } else {
                    None
                }
            }
            _ => None,
        }
    }
}

#[derive(Clone, Copy, Debug, PartialEq)]
enum Kind {
    GenKill,
    Count,
    Flat,
    NonMono,
}
const KINDS: [Kind; 4] = [Kind::GenKill, Kind::Count, Kind::Flat, Kind::NonMono];

fn bottom(k: Kind) -> S {
    match k {
        Kind::GenKill => S::Set(0),
        Kind::Count | Kind::NonMono => S::Chain(0),
        Kind::Flat => S::Flat(0),
    }
}
fn all_states(k: Kind) -> Vec<S> {
    match k {
        Kind::GenKill => (0..4).map(S::Set).collect(),
        Kind::Count | Kind::NonMono => (0..4).map(S::Chain).collect(),
        Kind::Flat => vec![S::Flat(0), S::Flat(1), S::Flat(2), S::Flat(9)],
    }
}
fn join(a: &S, b: &S) -> S {
    match (a, b) {
        (S::Set(x), S::Set(y)) => S::Set(x | y),
        (S::Chain(x), S::Chain(y)) => S::Chain(*x.max(y)),
        (S::Flat(x), S::Flat(y)) => S::Flat(if x == y { *x } else if *x == 0 { *y } else if *y == 0 { *x } else { 9 }),
        _ => unreachable!(),
    }
}
/// transfer function number `fid` (0..6) of analysis `k`
fn transfer(k: Kind, fid: usize, x: &S) -> S {
    match (k, x) {
        (Kind::GenKill, S::Set(s)) => S::Set(match fid {
            0 => *s,
            1 => s | 1,
            2 => s | 2,
            3 => s & !1,
            4 => (s & !1) | 2,
            _ => (s & !2) | 1,
        }),
        (Kind::Count, S::Chain(c)) => S::Chain(match fid {
            0 | 1 | 2 => (*c + 1).min(3),
            3 => (*c).max(1),
            _ => *c,
        }),
        (Kind::Flat, S::Flat(v)) => S::Flat(match fid {
            0 => 1,
            1 => 2,
            2 => {
                if *v == 1 {
                    2
                } else {
                    *v
                }
            } // monotone: bottom->bottom, 1->2, 2->2, top->top
            _ => *v,
        }),
        (Kind::NonMono, S::Chain(c)) => S::Chain(match fid {
            0 | 1 => 3 - *c,
            2 => (*c + 1).min(3),
            _ => *c,
        }),
        _ => unreachable!(),
    }
}
fn loc_fid(l: &FL, rot: usize) -> usize {
    (match l {
        FL::Instruction(b, i) => b * 2 + i * 3,
        FL::Edge(h, t) => 1 + h + 2 * t,
        FL::EmptyBlock(b) => 4 + b,
    } + rot)
        % 6
}

struct A {
    kind: Kind,
    rot: usize,
}
impl<'f> FixedPointAnalysis<'f, S> for A {
    fn trans(&self, location: il::RefProgramLocation<'f>, state: Option<S>) -> Result<S, Error> {
        let l: FL = location.function_location().clone().into();
        let x = state.unwrap_or_else(|| bottom(self.kind));
        Ok(transfer(self.kind, loc_fid(&l, self.rot), &x))
    }
    fn join(&self, state0: S, state1: &S) -> Result<S, Error> {
        Ok(join(&state0, state1))
    }
}

#[derive(Clone, Debug)]
struct Spec {
    n: usize,
    edges: u32,
    entry: usize,
    exit: usize,
    sizes: Vec<u8>,
    gap: bool,
}
impl Spec {
    fn json(&self) -> Value {
        json!({"n": self.n, "edges": self.edges, "entry": self.entry, "exit": self.exit, "sizes": self.sizes, "gap": self.gap})
    }
    fn parse(v: &Value) -> Spec {
        Spec {
            n: v["n"].as_u64().unwrap() as usize,
            edges: v["edges"].as_u64().unwrap() as u32,
            entry: v["entry"].as_u64().unwrap() as usize,
            exit: v["exit"].as_u64().unwrap() as usize,
            sizes: v["sizes"].as_array().unwrap().iter().map(|x| x.as_u64().unwrap() as u8).collect(),
            gap: v["gap"].as_bool().unwrap_or(false),
        }
    }
    fn build(&self) -> il::Function {
        let mut cfg = il::ControlFlowGraph::new();
        for _ in 0..self.n {
            cfg.new_block().unwrap();
        }
        for b in 0..self.n {
            // `gap`: instruction indices start at 1 (an instruction was removed), so index != position
            let extra = if self.gap && self.sizes[b] > 0 { 1 } else { 0 };
            for _ in 0..self.sizes[b] + extra {
                cfg.block_mut(b).unwrap().nop();
            }
            if extra == 1 {
                cfg.block_mut(b).unwrap().remove_instruction(0).unwrap();
            }
        }
        for i in 0..self.n {
            for j in 0..self.n {
                if self.edges & (1 << (i * self.n + j)) != 0 {
                    cfg.unconditional_edge(i, j).unwrap();
                }
            }
        }
        cfg.set_entry(self.entry).unwrap();
        cfg.set_exit(self.exit).unwrap();
        il::Function::new(0, cfg)
    }
}

/// harness-built location graph: successors map
fn loc_graph(f: &il::Function) -> BTreeMap<FL, BTreeSet<FL>> {
    let mut fwd: BTreeMap<FL, BTreeSet<FL>> = BTreeMap::new();
    let head = |b: usize| -> FL {
        match f.block(b).unwrap().instructions().first() {
            Some(i) => FL::Instruction(b, i.index()),
            None => FL::EmptyBlock(b),
        }
    };
    for blk in f.blocks() {
        let b = blk.index();
        let outs: BTreeSet<FL> = f.edges().iter().filter(|e| e.head() == b).map(|e| FL::Edge(e.head(), e.tail())).collect();
        let ins = blk.instructions();
        if ins.is_empty() {
            fwd.insert(FL::EmptyBlock(b), outs.clone());
        }
        for (k, i) in ins.iter().enumerate() {
            let l = FL::Instruction(b, i.index());
            if k + 1 < ins.len() {
                fwd.insert(l, [FL::Instruction(b, ins[k + 1].index())].into_iter().collect());
            } else {
                fwd.insert(l, outs.clone());
            }
        }
    }
    for e in f.edges() {
        fwd.insert(FL::Edge(e.head(), e.tail()), [head(e.tail())].into_iter().collect());
    }
    fwd
}

fn invert(g: &BTreeMap<FL, BTreeSet<FL>>) -> BTreeMap<FL, BTreeSet<FL>> {
    let mut r: BTreeMap<FL, BTreeSet<FL>> = g.keys().map(|k| (k.clone(), BTreeSet::new())).collect();
    for (a, ss) in g {
        for b in ss {
            r.get_mut(b).unwrap().insert(a.clone());
        }
    }
    r
}

fn closure(g: &BTreeMap<FL, BTreeSet<FL>>, start: &FL) -> BTreeSet<FL> {
    let mut seen = BTreeSet::new();
    let mut st = vec![start.clone()];
    while let Some(l) = st.pop() {
        if seen.insert(l.clone()) {
            st.extend(g[&l].iter().cloned());
        }
    }
    seen
}

/// Kleene iteration over `nodes` with dependency map `deps` (the nodes whose states flow INTO a node).
fn kleene(kind: Kind, rot: usize, nodes: &BTreeSet<FL>, deps: &BTreeMap<FL, BTreeSet<FL>>) -> Option<BTreeMap<FL, S>> {
    let mut st: BTreeMap<FL, S> = BTreeMap::new();
    for _round in 0..200 {
        let mut changed = false;
        for l in nodes {
            let mut input: Option<S> = None;
            for p in &deps[l] {
                if let Some(ps) = st.get(p) {
                    input = Some(match input {
                        None => ps.clone(),
                        Some(x) => join(&x, ps),
                    });
                }
            }
            let has_any_dep_state = input.is_some();
            // a non-start node is only computed once something flows into it (the engine never
            // visits it before); the start node is computed from 'no state'
            let x = input.unwrap_or_else(|| bottom(kind));
            let new = transfer(kind, loc_fid(l, rot), &x);
            let _ = has_any_dep_state;
            if st.get(l) != Some(&new) {
                st.insert(l.clone(), new);
                changed = true;
            }
        }
        if !changed {
            return Some(st);
        }
    }
    None // did not converge (only possible for the non-monotone analysis)
}

fn satisfies(kind: Kind, rot: usize, nodes: &BTreeSet<FL>, deps: &BTreeMap<FL, BTreeSet<FL>>, st: &BTreeMap<FL, S>) -> bool {
    nodes.iter().all(|l| {
        let mut input: Option<S> = None;
        for p in &deps[l] {
            if let Some(ps) = st.get(p) {
                input = Some(match input {
                    None => ps.clone(),
                    Some(x) => join(&x, ps),
                });
            }
        }
        let x = input.unwrap_or_else(|| bottom(kind));
        st.get(l) == Some(&transfer(kind, loc_fid(l, rot), &x))
    })
}

/// brute force: the least assignment satisfying all equations, if a least one exists
fn brute_least(kind: Kind, rot: usize, nodes: &BTreeSet<FL>, deps: &BTreeMap<FL, BTreeSet<FL>>) -> Option<BTreeMap<FL, S>> {
    let ns: Vec<FL> = nodes.iter().cloned().collect();
    let vals = all_states(kind);
    let total = vals.len().pow(ns.len() as u32);
    let mut sols: Vec<BTreeMap<FL, S>> = Vec::new();
    for code in 0..total {
        let mut c = code;
        let mut st = BTreeMap::new();
        for l in &ns {
            st.insert(l.clone(), vals[c % vals.len()].clone());
            c /= vals.len();
        }
        if satisfies(kind, rot, nodes, deps, &st) {
            sols.push(st);
        }
    }
    sols.iter().find(|s| sols.iter().all(|t| ns.iter().all(|l| matches!(s[l].partial_cmp(&t[l]), Some(Ordering::Less | Ordering::Equal))))).cloned()
}

fn check(acc: &mut Acc, spec: &Spec, thorough: bool, only: Option<(usize, usize)>) {
    let f = spec.build();
    let fwd = loc_graph(&f);
    let bwd = invert(&fwd);
    let entry_loc = match f.block(spec.entry).unwrap().instructions().first() {
        Some(i) => FL::Instruction(spec.entry, i.index()),
        None => FL::EmptyBlock(spec.entry),
    };
    let exit_loc = match f.block(spec.exit).unwrap().instructions().last() {
        Some(i) => FL::Instruction(spec.exit, i.index()),
        None => FL::EmptyBlock(spec.exit),
    };
    let fnodes = closure(&fwd, &entry_loc);
    let bnodes = closure(&bwd, &exit_loc);
    let rots: Vec<usize> = if thorough { (0..6).collect() } else { vec![0, 1, 3] };
    for (ki, kind) in KINDS.iter().enumerate() {
        for &rot in &rots {
            if let Some((k, r)) = only {
                if k != ki || r != rot {
                    continue;
                }
            }
            let case = || json!({"cfg": spec.json(), "analysis": ki, "rot": rot});
            // oracles: forward flows along fwd edges => deps = predecessors
            let f_or = kleene(*kind, rot, &fnodes, &bwd);
            let b_or = kleene(*kind, rot, &bnodes, &fwd);
            if *kind != Kind::NonMono {
                for (nodes, deps, or, name) in [(&fnodes, &bwd, &f_or, "forward"), (&bnodes, &fwd, &b_or, "backward")] {
                    if nodes.len() <= 6 {
                        let bl = brute_least(*kind, rot, nodes, deps);
                        acc.count("brute_force_least_solution_checks", 1);
                        if bl.is_none() || bl != *or {
                            // the oracle itself is inconsistent: machinery problem, not a verdict
                            acc.violation(format!("C09|ORACLE-INCONSISTENT|{}", name), format!("kleene {:?} brute {:?}", or, bl), case());
                        }
                    }
                }
            }
            let kname = format!("{:?}", kind);
            // "forward-wrapper"/"backward-wrapper" are the convenience entry points the in-tree analyses use: they must
            // behave like the explicit calls without `force`
            let mut variants: Vec<(&str, bool, Option<usize>)> = vec![("forward", false, None), ("forward-wrapper", false, None), ("forward-force", true, None)];
            for b in [0usize, 1, 2, 5] {
                variants.push(("forward-budget", false, Some(b)));
            }
            for (vname, force, budget) in variants {
                acc.count("transitions", 1);
                let r = guarded(|| if vname == "forward-wrapper" { fixed_point_forward(A { kind: *kind, rot }, &f) } else { fixed_point_forward_options(A { kind: *kind, rot }, &f, force, budget.unwrap_or(250000)) });
                let got: Result<BTreeMap<FL, S>, String> = match r {
                    Err(pn) => {
                        acc.violation(format!("C09|{}|{}|panic:{}", vname, kname, panic_class(&pn)), format!("panicked: {}", pn), case());
                        continue;
                    }
                    Ok(Ok(m)) => Ok(m.into_iter().map(|(k, v)| (k.function_location().clone(), v)).collect()),
                    Ok(Err(e)) => Err(match e {
                        Error::FixedPointMaxSteps => "max-steps".to_string(),
                        Error::FixedPointOrdering(..) => "ordering".to_string(),
                        _ => format!("other:{}", e),
                    }),
                };
                judge(acc, &got, &f_or, &fnodes, &bwd, *kind, rot, vname, &kname, force, budget, &case);
            }
            for (vname, force) in [("backward", false), ("backward-wrapper", false), ("backward-force", true)] {
                acc.count("transitions", 1);
                let r = guarded(|| if vname == "backward-wrapper" { fixed_point_backward(A { kind: *kind, rot }, &f) } else { fixed_point_backward_options(A { kind: *kind, rot }, &f, force) });
                let got: Result<BTreeMap<FL, S>, String> = match r {
                    Err(pn) => {
                        acc.violation(format!("C09|{}|{}|panic:{}", vname, kname, panic_class(&pn)), format!("panicked: {}", pn), case());
                        continue;
                    }
                    Ok(Ok(m)) => Ok(m.into_iter().map(|(k, v)| (k.function_location().clone().into(), v)).collect()),
                    Ok(Err(e)) => Err(match e {
                        Error::FixedPointMaxSteps => "max-steps".to_string(),
                        Error::FixedPointOrdering(..) => "ordering".to_string(),
                        _ => format!("other:{}", e),
                    }),
                };
                judge(acc, &got, &b_or, &bnodes, &fwd, *kind, rot, vname, &kname, force, None, &case);
            }
        }
    }
    acc.count("evaluations", 1);
    acc.count("nontrivial", 1);
}

#[allow(clippy::too_many_arguments)]
fn judge(
    acc: &mut Acc,
    got: &Result<BTreeMap<FL, S>, String>,
    oracle: &Option<BTreeMap<FL, S>>,
    nodes: &BTreeSet<FL>,
    deps: &BTreeMap<FL, BTreeSet<FL>>,
    kind: Kind,
    rot: usize,
    vname: &str,
    kname: &str,
    force: bool,
    budget: Option<usize>,
    case: &dyn Fn() -> Value,
) {
    let key = |obs: &str| format!("C09|{}|{}|{}", vname, kname, obs);
    match got {
        Ok(m) => {
            acc.count("states", m.len() as u64);
            acc.outcome(&format!("{:?}", m));
            let keys: BTreeSet<FL> = m.keys().cloned().collect();
            if keys != *nodes {
                let obs = if keys.is_subset(nodes) { "missing-locations" } else { "extra-locations" };
                acc.violation(key(obs), format!("result has locations {:?}, reachable are {:?}", keys, nodes), case());
                return;
            }
            if kind == Kind::NonMono {
                if !satisfies(kind, rot, nodes, deps, m) && !force {
                    acc.violation(key("ok-but-not-a-solution"), format!("non-monotone analysis returned Ok({:?}) which violates an equation", m), case());
                }
                return;
            }
            let oracle = oracle.as_ref().expect("monotone analyses converge");
            if force {
                // post-fixed point above the least solution
                let above = nodes.iter().all(|l| matches!(m[l].partial_cmp(&oracle[l]), Some(Ordering::Greater | Ordering::Equal)));
                if !above {
                    acc.violation(key("force-below-least"), format!("got {:?} least {:?}", m, oracle), case());
                }
                return;
            }
            if m != oracle {
                acc.violation(key("wrong-state"), format!("got {:?} expected least solution {:?}", m, oracle), case());
            }
        }
        Err(e) => {
            let allowed = match (kind, budget, e.as_str()) {
                (_, Some(_), "max-steps") => true,
                (Kind::NonMono, _, "ordering") => true,
                (Kind::NonMono, _, "max-steps") => true,
                _ => false,
            };
            if !allowed {
                acc.violation(key(&format!("error-{}", e.split(':').next().unwrap_or(""))), format!("monotone analysis failed: {}", e), case());
            }
            if budget.is_some() && e == "max-steps" {
                acc.count("budget_exhausted_errors", 1);
            }
        }
    }
}

fn run(ctx: &Ctx) -> Acc {
    let mut acc = Acc::new();
    let thorough = ctx.tier.thorough();
    let mut unit = 0u64;
    for n in 1..=3usize {
        for edges in 0..(1u32 << (n * n)) {
            for entry in 0..n {
                for exit in 0..n {
                    unit += 1;
                    if !ctx.mine(unit) {
                        continue;
                    }
                    let maxsz = if thorough || n < 3 { 3usize } else { 2 };
                    let total = maxsz.pow(n as u32);
                    for code in 0..total {
                        let mut c = code;
                        let sizes: Vec<u8> = (0..n)
                            .map(|_| {
                                let v = (c % maxsz) as u8;
                                c /= maxsz;
                                v
                            })
                            .collect();
                        let gapped = sizes.iter().any(|s| *s >= 2);
                        let spec = Spec { n, edges, entry, exit, sizes, gap: false };
                        ctx.trace(|| format!("cfg\t{}", json!({"cfg": spec.json()})));
                        check(&mut acc, &spec, thorough, None);
                        if gapped {
                            // the same graph with non-dense instruction indices (as after remove_instruction)
                            let spec = Spec { gap: true, ..spec };
                            ctx.trace(|| format!("cfg\t{}", json!({"cfg": spec.json()})));
                            check(&mut acc, &spec, thorough, None);
                        }
                    }
                }
            }
        }
    }
    acc.count("traces", acc.get("transitions"));
    if ctx.shard == 0 {
        acc.sample(json!({"cfg": Spec { n: 3, edges: 0b001_100_010, entry: 0, exit: 2, sizes: vec![1, 0, 2], gap: false }.json(), "analysis": 1, "rot": 0, "note": "loop 0->1->2->0 forces the counter to the top"}));
    }
    acc
}

fn replay(case: &Value) -> Acc {
    let mut acc = Acc::new();
    let spec = Spec::parse(&case["cfg"]);
    let only = match (case["analysis"].as_u64(), case["rot"].as_u64()) {
        (Some(a), Some(r)) => Some((a as usize, r as usize)),
        _ => None,
    };
    check(&mut acc, &spec, true, only);
    acc
}
