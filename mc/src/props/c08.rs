//! C08 — paged memory is a byte-addressed array with independent clones.
use crate::explore::history::{explore_traced, Subject};
use crate::report::{Acc, Describe};
use crate::util::{guarded, panic_class};
use crate::{Ctx, Prop};
use falcon::architecture::Endian;
use falcon::il;
use falcon::memory::backing;
use falcon::memory::paged::{Memory, MemoryCell};
use falcon::memory::MemoryPermissions as P;
use falcon::memory::Value as MV;
use falcon::RC;
use num_bigint::BigUint;
use serde_json::{json, Value};
use std::collections::BTreeMap;
use std::marker::PhantomData;

pub fn prop() -> Prop {
    Prop {
        id: "C08",
        describe,
        run,
        replay,
        shards: |_| 8, // endian x backing x value type
        timeout_s: |t| if t.thorough() { 3400 } else { 300 },
        mem_limit: 12 << 30,
    }
}

fn describe() -> Describe {
    Describe {
        id: "C08",
        level: "model_checking",
        rule: "stateright BFS over ALL histories of store(slot, address, width) / fork (slot1 := slot0.clone()) / \
               set_permissions(slot, range, perm) to the stated depth, addresses straddling the 1024-byte page boundary at 0x400, \
               widths 8/16/32/64, data bytes tagged by operation ordinal, for endian x {no backing, backing under the lower half} x \
               {il::Constant, il::Expression}; in every reached state, for both slots, loads of widths 8..128 at every window address, \
               m == m.clone(), equality => equal contents, and permissions are compared with a byte/range reference. State key = \
               depth + dump of every page's cells and permissions of both slots. Non-trivial = state with a stored byte.",
        assumptions: vec![
            "Expression-valued loads are evaluated with falcon's executor::eval (itself checked by C04)".into(),
            "permissions of addresses that share a page with a set range but lie outside it are not compared (page granularity)".into(),
            "address arithmetic wrapping at 2^64 is not exercised".into(),
        ],
        engine: "stateright 0.31 spawn_bfs over the real object (history replay), 8 configurations x 2 threads",
    }
}

pub trait TV: MV + Send + Sync + 'static {
    fn konst(c: il::Constant) -> Self;
    fn evaluate(&self) -> Result<il::Constant, String>;
    const NAME: &'static str;
}
impl TV for il::Constant {
    fn konst(c: il::Constant) -> Self {
        c
    }
    fn evaluate(&self) -> Result<il::Constant, String> {
        Ok(self.clone())
    }
    const NAME: &'static str = "Constant";
}
impl TV for il::Expression {
    fn konst(c: il::Constant) -> Self {
        c.into()
    }
    fn evaluate(&self) -> Result<il::Constant, String> {
        falcon::executor::eval(self).map_err(|e| format!("{}", e))
    }
    const NAME: &'static str = "Expression";
}

#[derive(Clone, Debug, PartialEq)]
pub enum Op {
    Store { slot: usize, a: u64, w: usize },
    Fork,
    Perm { slot: usize, lo: u64, len: u64, perm: u32 },
}

pub struct Sub<V: TV> {
    endian: Endian,
    backed: bool,
    /// alphabet size: 0 tiny, 1 reduced, 2 full
    level: u8,
    _v: PhantomData<fn() -> V>,
}

#[derive(Clone, Default)]
struct Ref {
    bytes: BTreeMap<u64, u8>,
    perms: Vec<(u64, u64, u32)>,
}
pub struct Obj<V: TV> {
    m: [Memory<V>; 2],
    r: [Ref; 2],
}

const BACK_LO: u64 = 0x3F8;
const BACK_HI: u64 = 0x400;
const BACK_PERM: u32 = 0b001;
fn back_byte(a: u64) -> Option<u8> {
    if (BACK_LO..BACK_HI).contains(&a) {
        Some(0xE0 | (a & 0xf) as u8)
    } else {
        None
    }
}
const WIN: std::ops::Range<u64> = 0x3F6..0x40C;
const FAR: std::ops::Range<u64> = 0xFFE..0x100A;

fn assemble(bytes: &[u8], endian: &Endian) -> BigUint {
    match endian {
        Endian::Little => BigUint::from_bytes_le(bytes),
        Endian::Big => BigUint::from_bytes_be(bytes),
    }
}

impl<V: TV> Sub<V> {
    fn cfg(&self) -> String {
        format!("{:?}/{}/{}", self.endian, if self.backed { "backed" } else { "unbacked" }, V::NAME)
    }
    fn hist_json(&self, hist: &[Op], op: Option<&Op>) -> Value {
        let mut v: Vec<Value> = hist.iter().map(|o| self.op_json(o)).collect();
        if let Some(o) = op {
            v.push(self.op_json(o));
        }
        json!({"endian": format!("{:?}", self.endian), "backed": self.backed, "value": V::NAME, "history": v})
    }
    fn byte_at(&self, r: &Ref, a: u64) -> Option<u8> {
        r.bytes.get(&a).cloned().or_else(|| if self.backed { back_byte(a) } else { None })
    }
    /// expected permissions: Some(Some(p)) definite, Some(None) = none reported, None = unspecified
    fn perm_at(&self, r: &Ref, a: u64) -> Option<Option<u32>> {
        if let Some((_, _, p)) = r.perms.iter().rev().find(|(lo, hi, _)| *lo <= a && a < *hi) {
            return Some(Some(*p));
        }
        let page = a & !0x3ff;
        if r.perms.iter().any(|(lo, hi, _)| (*lo & !0x3ff) <= page && page < *hi) {
            return None; // shares a page with a set range
        }
        Some(if self.backed && (BACK_LO..BACK_HI).contains(&a) { Some(BACK_PERM) } else { None })
    }
}

impl<V: TV> Subject for Sub<V> {
    type Op = Op;
    type Obj = Obj<V>;
    fn init(&self) -> Obj<V> {
        let mk = || {
            if self.backed {
                let mut b = backing::Memory::new(self.endian.clone());
                let data: Vec<u8> = (BACK_LO..BACK_HI).map(|a| back_byte(a).unwrap()).collect();
                b.set_memory(BACK_LO, data, P::from_bits_truncate(BACK_PERM));
                Memory::<V>::new_with_backing(self.endian.clone(), RC::new(b))
            } else {
                Memory::<V>::new(self.endian.clone())
            }
        };
        Obj { m: [mk(), mk()], r: [Ref::default(), Ref::default()] }
    }
    fn ops(&self, _o: &Obj<V>, _hist: &[Op]) -> Vec<Op> {
        let mut v = Vec::new();
        let addrs: Vec<u64> = match self.level { 2 => (0x3FC..=0x403).chain([0x1000]).collect(), 1 => (0x3FD..=0x402).collect(), _ => (0x3FE..=0x401).collect() };
        for slot in 0..2 {
            for &a in &addrs {
                for w in [8usize, 16, 32, 64] {
                    v.push(Op::Store { slot, a, w });
                }
            }
        }
        v.push(Op::Fork);
        let ranges: &[(u64, u64)] = if self.level == 2 { &[(0x400, 0x400), (0x0, 0x800), (0x3F0, 0x20)] } else { &[(0x400, 0x400), (0x3F0, 0x20)] };
        let perms: &[u32] = if self.level == 2 { &[0b001, 0b011] } else { &[0b011] };
        for slot in 0..2 {
            for (lo, len) in ranges {
                for p in perms {
                    v.push(Op::Perm { slot, lo: *lo, len: *len, perm: *p });
                }
            }
        }
        v
    }
    fn apply(&self, o: &mut Obj<V>, op: &Op, acc: &mut Acc, hist: &[Op]) {
        match op {
            Op::Store { slot, a, w } => {
                let n = w / 8;
                let bytes: Vec<u8> = (0..n).map(|i| (((hist.len() + 1) as u8) << 4) | i as u8).collect();
                let c = il::Constant::new_big(assemble(&bytes, &self.endian), *w);
                let m = &mut o.m[*slot];
                match guarded(move || m.store(*a, V::konst(c))) {
                    Err(pn) => acc.violation(
                        format!("C08|store|panic:{}|{}", panic_class(&pn), self.cfg()),
                        format!("store panicked: {}", pn),
                        self.hist_json(hist, Some(op)),
                    ),
                    Ok(Err(e)) => acc.violation(
                        format!("C08|store|error|{}", self.cfg()),
                        format!("store returned error: {}", e),
                        self.hist_json(hist, Some(op)),
                    ),
                    Ok(Ok(())) => {}
                }
                for (i, b) in bytes.iter().enumerate() {
                    o.r[*slot].bytes.insert(*a + i as u64, *b);
                }
            }
            Op::Fork => {
                o.m[1] = o.m[0].clone();
                o.r[1] = o.r[0].clone();
            }
            Op::Perm { slot, lo, len, perm } => {
                let m = &mut o.m[*slot];
                if let Err(pn) = guarded(move || m.set_permissions(*lo, *len, P::from_bits_truncate(*perm))) {
                    acc.violation(format!("C08|set_permissions|panic:{}|{}", panic_class(&pn), self.cfg()), format!("set_permissions panicked: {}", pn), self.hist_json(hist, Some(op)));
                }
                o.r[*slot].perms.push((*lo, *lo + *len, *perm));
            }
        }
    }
    fn canon(&self, o: &Obj<V>) -> Vec<u8> {
        let mut s = String::new();
        for (i, m) in o.m.iter().enumerate() {
            let mut pages: Vec<_> = m.pages().iter().collect();
            pages.sort_by_key(|(a, _)| **a);
            s.push_str(&format!("slot{}:", i));
            for (pa, page) in pages {
                s.push_str(&format!("[{:x} {:?}", pa, page.permissions().map(|p| p.bits())));
                for (ci, c) in page.cells().iter().enumerate() {
                    match c {
                        None => {}
                        Some(MemoryCell::Value(v)) => s.push_str(&format!(" {:x}=V({:?})", ci, v)),
                        Some(MemoryCell::Backref(b)) => s.push_str(&format!(" {:x}=B({:x})", ci, b)),
                    }
                }
                s.push(']');
            }
            // the reference is a function of the history, not of the cells: include it so that a
            // divergence between the two is never merged away
            s.push_str(&format!("{:?}{:?}", o.r[i].bytes, o.r[i].perms));
        }
        s.into_bytes()
    }
    fn check(&self, o: &Obj<V>, hist: &[Op], acc: &mut Acc) {
        acc.count("evaluations", 1);
        if !(o.r[0].bytes.is_empty() && o.r[1].bytes.is_empty()) {
            acc.count("nontrivial", 1);
        }
        let cfg = self.cfg();
        let case = || self.hist_json(hist, None);
        let forked = hist.iter().any(|o| *o == Op::Fork);
        for slot in 0..2 {
            let m = &o.m[slot];
            let r = &o.r[slot];
            // reflexive equality with an unmodified clone
            match guarded(|| *m == m.clone()) {
                Ok(true) => {}
                Ok(false) => acc.violation(format!("C08|eq|not-reflexive|{}", if self.backed { "backed" } else { "unbacked" }), "memory != its own clone", case()),
                Err(pn) => acc.violation(format!("C08|eq|panic:{}|{}", panic_class(&pn), cfg), format!("== panicked: {}", pn), case()),
            }
            for a in WIN.chain(if self.level == 2 { FAR } else { 0..0 }) {
                for w in [8usize, 16, 24, 32, 64, 128] {
                    let n = (w / 8) as u64;
                    let exp: Option<Vec<u8>> = (0..n).map(|i| self.byte_at(r, a + i)).collect();
                    let cls = |obs: &str| {
                        let crossing = (a & !0x3ff) != ((a + n - 1) & !0x3ff);
                        format!("C08|load|{}|{},{}{}", obs, cfg, if crossing { "page-crossing" } else { "in-page" }, if forked { ",forked" } else { "" })
                    };
                    match guarded(|| m.load(a, w)) {
                        Err(pn) => acc.violation(cls(&format!("panic:{}", panic_class(&pn))), format!("load({:#x},{}) slot {} panicked: {}", a, w, slot, pn), case()),
                        Ok(Err(e)) => acc.violation(cls("error"), format!("load({:#x},{}) slot {} error: {}", a, w, slot, e), case()),
                        Ok(Ok(None)) => {
                            if exp.is_some() {
                                acc.violation(cls("absent-but-stored"), format!("load({:#x},{}) slot {} = None, expected bytes {:x?}", a, w, slot, exp), case());
                            }
                        }
                        Ok(Ok(Some(v))) => match &exp {
                            None => acc.violation(cls("present-but-unmapped"), format!("load({:#x},{}) slot {} = {:?}, expected None", a, w, slot, v), case()),
                            Some(bytes) => {
                                if v.bits() != w {
                                    acc.violation(cls("wrong-width"), format!("load({:#x},{}) slot {} has {} bits", a, w, slot, v.bits()), case());
                                } else {
                                    match guarded(|| v.evaluate()) {
                                        Ok(Ok(c)) => {
                                            if *c.value() != assemble(bytes, &self.endian) || c.bits() != w {
                                                acc.violation(cls("wrong-bytes"), format!("load({:#x},{}) slot {} = {} expected bytes {:x?}", a, w, slot, c, bytes), case());
                                            }
                                            acc.outcome(&(a, w, bytes));
                                        }
                                        Ok(Err(e)) => acc.violation(cls("ill-formed-expression"), format!("load({:#x},{}) slot {}: {:?} does not evaluate: {}", a, w, slot, v, e), case()),
                                        Err(pn) => acc.violation(cls("eval-panic"), format!("evaluating load({:#x},{}) panicked: {}", a, w, pn), case()),
                                    }
                                }
                            }
                        },
                    }
                }
                if let Some(exp) = self.perm_at(r, a) {
                    let got = m.permissions(a).map(|p| p.bits());
                    if got != exp {
                        let stored_page = r.bytes.keys().any(|k| k & !0x3ff == a & !0x3ff);
                        acc.violation(
                            format!(
                                "C08|permissions|{}|{}{}",
                                if exp.is_some() && r.perms.iter().any(|(lo, hi, _)| *lo <= a && a < *hi) { "set-range-not-reported" } else if exp.is_some() { "backing-not-reported" } else { "reported-but-never-set" },
                                if self.backed { "backed" } else { "unbacked" },
                                if stored_page { ",page-has-stores" } else { "" }
                            ),
                            format!("permissions({:#x}) slot {} = {:?} expected {:?}", a, slot, got, exp),
                            case(),
                        );
                    }
                }
            }
        }
        // equality implies equal contents
        if let Ok(true) = guarded(|| o.m[0] == o.m[1]) {
            let same = WIN.chain(FAR).all(|a| self.byte_at(&o.r[0], a) == self.byte_at(&o.r[1], a));
            if !same {
                acc.violation(format!("C08|eq|equal-but-different-contents|{}", cfg), "slots compare equal but their byte contents differ", case());
            }
        }
    }
    fn case_json(&self, hist: &[Op], op: Option<&Op>) -> Value {
        self.hist_json(hist, op)
    }
    fn op_json(&self, op: &Op) -> Value {
        match op {
            Op::Store { slot, a, w } => json!(["store", slot, a, w]),
            Op::Fork => json!(["fork"]),
            Op::Perm { slot, lo, len, perm } => json!(["set_permissions", slot, lo, len, perm]),
        }
    }
}

fn op_parse(v: &Value) -> Op {
    let n = |i: usize| v[i].as_u64().unwrap();
    match v[0].as_str().unwrap() {
        "store" => Op::Store { slot: n(1) as usize, a: n(2), w: n(3) as usize },
        "fork" => Op::Fork,
        _ => Op::Perm { slot: n(1) as usize, lo: n(2), len: n(3), perm: n(4) as u32 },
    }
}

fn run_cfg<V: TV>(endian: Endian, backed: bool, tier_thorough: bool, acc: &mut Acc, trace: Option<&str>) {
    // quick: full alphabet to depth 2, tiny alphabet to depth 3
    // thorough: full alphabet to depth 3, reduced alphabet to depth 4
    let (d_red, d_full, red_level) = if tier_thorough { (4, 3, 1) } else { (3, 2, 0) };
    let a = explore_traced(Sub::<V> { endian: endian.clone(), backed, level: 2, _v: PhantomData }, Some(d_full), 2, trace);
    acc.merge(a);
    let a = explore_traced(Sub::<V> { endian, backed, level: red_level, _v: PhantomData }, Some(d_red), 2, trace);
    acc.merge(a);
    acc.max("max_depth_full_alphabet", d_full as u64);
    acc.max("max_depth_reduced_alphabet", d_red as u64);
}

fn run(ctx: &Ctx) -> Acc {
    let mut acc = Acc::new();
    if ctx.shard >= 8 {
        return acc;
    }
    let endian = if ctx.shard & 1 == 0 { Endian::Little } else { Endian::Big };
    let backed = ctx.shard & 2 != 0;
    if ctx.shard & 4 == 0 {
        run_cfg::<il::Constant>(endian, backed, ctx.tier.thorough(), &mut acc, ctx.trace_path.as_deref());
    } else {
        run_cfg::<il::Expression>(endian, backed, ctx.tier.thorough(), &mut acc, ctx.trace_path.as_deref());
    }
    acc.count("traces", acc.get("states"));
    if ctx.shard == 0 {
        acc.sample(json!({"endian":"Little","backed":false,"value":"Constant","history":[["store",0,1022,32],["fork"],["store",1,1023,8]],"checked":"loads of 8..128 bits at 0x3f6..0x40c in both slots, eq, permissions"}));
    }
    acc
}

fn replay(case: &Value) -> Acc {
    let mut acc = Acc::new();
    let endian = if case["endian"].as_str() == Some("Big") { Endian::Big } else { Endian::Little };
    let backed = case["backed"].as_bool().unwrap_or(false);
    let ops: Vec<Op> = case["history"].as_array().map(|h| h.iter().map(op_parse).collect()).unwrap_or_default();
    fn go<V: TV>(endian: Endian, backed: bool, ops: &[Op], acc: &mut Acc) {
        let s = Sub::<V> { endian, backed, level: 2, _v: PhantomData };
        let mut o = s.init();
        s.check(&o, &[], acc);
        for (i, op) in ops.iter().enumerate() {
            s.apply(&mut o, op, acc, &ops[..i]);
            s.check(&o, &ops[..=i], acc);
        }
    }
    if case["value"].as_str() == Some("Expression") {
        go::<il::Expression>(endian, backed, &ops, &mut acc)
    } else {
        go::<il::Constant>(endian, backed, &ops, &mut acc)
    }
    acc
}
