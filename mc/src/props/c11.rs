//! C11 — graph algorithms equal their textbook definitions on every graph.
use crate::explore::history::{explore_traced, Subject};
use crate::report::{Acc, Describe};
use crate::util::{guarded, panic_class};
use crate::{Ctx, Prop};
use falcon::graph::{Graph, NullEdge, NullVertex};
use serde_json::{json, Value};
use std::collections::{BTreeMap, BTreeSet};

type G = Graph<NullVertex, NullEdge>;

pub fn prop() -> Prop {
    Prop {
        id: "C11",
        describe,
        run,
        replay,
        shards: |_| 16,
        timeout_s: |t| if t.thorough() { 3000 } else { 300 },
        mem_limit: 6 << 30,
    }
}

fn describe() -> Describe {
    Describe {
        id: "C11",
        level: "model_checking",
        rule: "(a) every digraph (self-loops included) on n<=4 vertices over non-contiguous ids x every root; thorough adds all \
               n=5 digraphs (self-loops included, 2^25 graphs); each compared with definitional brute-force oracles (dominance by vertex deletion, \
               all DFS runs enumerated for pre/post orders and DFS trees, T1/T2 reducibility, transitive closure). \
               (b) stateright BFS over ALL edit histories of insert/remove vertex/edge/remove_unreachable on ids {1,4,9}: the \
               search closes (state = Debug dump of the real Graph incl. both adjacency mirrors); in every reached state all views \
               are compared with a (V,E) reference and the algorithms of (a) are re-checked on the edited object from every root. \
               Non-trivial = graph/root pair or edit state on which at least one oracle comparison was made.",
        assumptions: vec![
            "oracles are O(n^3) brute-force definitions written in the harness".into(),
            "for vertices unreachable from the root only absence of failure and absence from results about reachable vertices is required".into(),
            "is_reducible is compared only on graphs whose vertices are all reachable from the root (the code documents unreachable => irreducible)".into(),
            "loop nesting is compared as the proper-containment relation (falcon's loop 'tree' contains transitive nesting edges)".into(),
        ],
        engine: "grid enumerator over graphs (16 processes) + stateright 0.31 BFS over edit histories (closing search)",
    }
}

/// Reference graph: vertex ids and an adjacency matrix over positions.
#[derive(Clone, Debug)]
pub struct RefG {
    pub ids: Vec<usize>,
    pub adj: Vec<Vec<bool>>,
}
impl RefG {
    fn n(&self) -> usize {
        self.ids.len()
    }
    fn pos(&self, id: usize) -> Option<usize> {
        self.ids.iter().position(|x| *x == id)
    }
    fn edges(&self) -> Vec<(usize, usize)> {
        let mut v = Vec::new();
        for i in 0..self.n() {
            for j in 0..self.n() {
                if self.adj[i][j] {
                    v.push((self.ids[i], self.ids[j]));
                }
            }
        }
        v
    }
    fn to_json(&self, root: usize) -> Value {
        json!({"ids": self.ids, "edges": self.edges(), "root": root})
    }
    fn from_json(v: &Value) -> (RefG, usize) {
        let ids: Vec<usize> = v["ids"].as_array().unwrap().iter().map(|x| x.as_u64().unwrap() as usize).collect();
        let n = ids.len();
        let mut adj = vec![vec![false; n]; n];
        for e in v["edges"].as_array().unwrap() {
            let (a, b) = (e[0].as_u64().unwrap() as usize, e[1].as_u64().unwrap() as usize);
            let (i, j) = (ids.iter().position(|x| *x == a).unwrap(), ids.iter().position(|x| *x == b).unwrap());
            adj[i][j] = true;
        }
        (RefG { ids, adj }, v["root"].as_u64().unwrap() as usize)
    }
    fn build(&self) -> G {
        let mut g = G::new();
        for id in &self.ids {
            g.insert_vertex(NullVertex::new(*id)).unwrap();
        }
        for (a, b) in self.edges() {
            g.insert_edge(NullEdge::new(a, b)).unwrap();
        }
        g
    }
    /// bitmask of positions reachable from r, never entering `removed`
    fn reach(&self, r: usize, removed: Option<usize>) -> u32 {
        if Some(r) == removed {
            return 0;
        }
        let mut seen = 1u32 << r;
        let mut stack = vec![r];
        while let Some(v) = stack.pop() {
            for w in 0..self.n() {
                if self.adj[v][w] && Some(w) != removed && seen & (1 << w) == 0 {
                    seen |= 1 << w;
                    stack.push(w);
                }
            }
        }
        seen
    }
    /// dom[v] = bitmask of dominators of v (only for reachable v; 0 otherwise)
    fn dominators(&self, r: usize) -> Vec<u32> {
        let reach = self.reach(r, None);
        let mut dom = vec![0u32; self.n()];
        for v in 0..self.n() {
            if reach & (1 << v) == 0 {
                continue;
            }
            for d in 0..self.n() {
                if d == v || self.reach(r, Some(d)) & (1 << v) == 0 {
                    dom[v] |= 1 << d;
                }
            }
        }
        dom
    }
    fn idoms(&self, r: usize) -> BTreeMap<usize, usize> {
        let dom = self.dominators(r);
        let mut out = BTreeMap::new();
        for v in 0..self.n() {
            if v == r || dom[v] == 0 {
                continue;
            }
            let strict = dom[v] & !(1 << v);
            // the strict dominator that every other strict dominator dominates
            for d in 0..self.n() {
                if strict & (1 << d) != 0 && strict & !dom[d] == 0 {
                    out.insert(v, d);
                }
            }
        }
        out
    }
    fn closure(&self) -> Vec<Vec<bool>> {
        // c[u][v]: path of length >= 1 from u to v
        let n = self.n();
        let mut c = self.adj.clone();
        for k in 0..n {
            for i in 0..n {
                for j in 0..n {
                    if c[i][k] && c[k][j] {
                        c[i][j] = true;
                    }
                }
            }
        }
        c
    }
    /// every (pre-order, post-order, tree edges) a depth-first search from r can produce
    fn dfs_runs(&self, r: usize) -> Vec<(Vec<usize>, Vec<usize>, BTreeSet<(usize, usize)>)> {
        fn go(
            g: &RefG,
            stack: &mut Vec<usize>,
            visited: u32,
            pre: &mut Vec<usize>,
            post: &mut Vec<usize>,
            tree: &mut BTreeSet<(usize, usize)>,
            out: &mut Vec<(Vec<usize>, Vec<usize>, BTreeSet<(usize, usize)>)>,
        ) {
            let t = match stack.last() {
                None => {
                    out.push((pre.clone(), post.clone(), tree.clone()));
                    return;
                }
                Some(t) => *t,
            };
            let cands: Vec<usize> = (0..g.n()).filter(|w| g.adj[t][*w] && visited & (1 << w) == 0).collect();
            if cands.is_empty() {
                stack.pop();
                post.push(t);
                go(g, stack, visited, pre, post, tree, out);
                post.pop();
                stack.push(t);
            } else {
                for w in cands {
                    stack.push(w);
                    pre.push(w);
                    tree.insert((t, w));
                    go(g, stack, visited | (1 << w), pre, post, tree, out);
                    tree.remove(&(t, w));
                    pre.pop();
                    stack.pop();
                }
            }
        }
        let mut out = Vec::new();
        go(self, &mut vec![r], 1 << r, &mut vec![r], &mut vec![], &mut BTreeSet::new(), &mut out);
        out
    }
    /// T1/T2 reducibility (all vertices assumed reachable from r)
    fn reducible(&self, r: usize) -> bool {
        let n = self.n();
        let mut alive: Vec<bool> = vec![true; n];
        let mut adj = self.adj.clone();
        loop {
            let mut changed = false;
            for v in 0..n {
                if alive[v] && adj[v][v] {
                    adj[v][v] = false; // T1
                    changed = true;
                }
            }
            for v in 0..n {
                if !alive[v] || v == r {
                    continue;
                }
                let preds: Vec<usize> = (0..n).filter(|u| alive[*u] && adj[*u][v]).collect();
                if preds.len() == 1 {
                    let p = preds[0]; // T2: merge v into p
                    for w in 0..n {
                        if adj[v][w] {
                            adj[p][w] = true;
                        }
                        adj[v][w] = false;
                    }
                    adj[p][v] = false;
                    alive[v] = false;
                    changed = true;
                    break;
                }
            }
            if !changed {
                break;
            }
        }
        alive.iter().filter(|a| **a).count() == 1
    }
}

fn mask_ids(g: &RefG, m: u32) -> BTreeSet<usize> {
    (0..g.n()).filter(|i| m & (1 << i) != 0).map(|i| g.ids[i]).collect()
}

macro_rules! call {
    ($acc:expr, $rg:expr, $root:expr, $class:expr, $name:expr, $e:expr) => {
        match guarded(|| $e) {
            Ok(v) => Some(v),
            Err(p) => {
                $acc.violation(
                    format!("C11|{}|panic:{}|{}", $name, panic_class(&p), $class),
                    format!("{} panicked: {}", $name, p),
                    $rg.to_json($root),
                );
                None
            }
        }
    };
}

/// Compare every algorithm of the real graph `g` with the definitional oracles on `rg`.
pub fn check_algos(g: &G, rg: &RefG, root_id: usize, acc: &mut Acc) {
    let r = match rg.pos(root_id) {
        Some(r) => r,
        None => return,
    };
    let n = rg.n();
    let reach = rg.reach(r, None);
    let all_reach = reach.count_ones() as usize == n;
    let class = if all_reach { "all-reachable" } else { "has-unreachable" };
    let case = || rg.to_json(root_id);
    let mut bad = |acc: &mut Acc, f: &str, what: String| {
        acc.violation(format!("C11|{}|mismatch|{}", f, class), format!("{}: {}", f, what), case());
    };
    acc.count("evaluations", 1);
    acc.count("nontrivial", 1);
    let reach_ids = mask_ids(rg, reach);

    // reachability
    if let Some(Ok(got)) = call!(acc, rg, root_id, class, "reachable_vertices", g.reachable_vertices(root_id)) {
        let got: BTreeSet<usize> = got.into_iter().collect();
        if got != reach_ids {
            bad(acc, "reachable_vertices", format!("got {:?} expected {:?}", got, reach_ids));
        }
    }
    if let Some(Ok(got)) = call!(acc, rg, root_id, class, "unreachable_vertices", g.unreachable_vertices(root_id)) {
        let got: BTreeSet<usize> = got.into_iter().collect();
        let exp: BTreeSet<usize> = rg.ids.iter().cloned().filter(|i| !reach_ids.contains(i)).collect();
        if got != exp {
            bad(acc, "unreachable_vertices", format!("got {:?} expected {:?}", got, exp));
        }
    }
    // orders and DFS tree: membership in the set of all DFS runs
    let runs = rg.dfs_runs(r);
    let to_ids = |v: &Vec<usize>| v.iter().map(|i| rg.ids[*i]).collect::<Vec<usize>>();
    match call!(acc, rg, root_id, class, "compute_pre_order", g.compute_pre_order(root_id)) {
        Some(Ok(got)) => {
            if !runs.iter().any(|(p, _, _)| to_ids(p) == got) {
                bad(acc, "compute_pre_order", format!("{:?} is not a DFS pre-order", got));
            }
        }
        Some(Err(e)) => bad(acc, "compute_pre_order", format!("error {}", e)),
        None => {}
    }
    match call!(acc, rg, root_id, class, "compute_post_order", g.compute_post_order(root_id)) {
        Some(Ok(got)) => {
            if !runs.iter().any(|(_, p, _)| to_ids(p) == got) {
                bad(acc, "compute_post_order", format!("{:?} is not a DFS post-order", got));
            }
        }
        Some(Err(e)) => bad(acc, "compute_post_order", format!("error {}", e)),
        None => {}
    }
    match call!(acc, rg, root_id, class, "compute_dfs_tree", g.compute_dfs_tree(root_id)) {
        Some(Ok(t)) => {
            let tv: BTreeSet<usize> = t.vertices().iter().map(|v| falcon::graph::Vertex::index(*v)).collect();
            let te: BTreeSet<(usize, usize)> = t
                .edges()
                .iter()
                .map(|e| (falcon::graph::Edge::head(*e), falcon::graph::Edge::tail(*e)))
                .collect();
            let ok = tv == reach_ids
                && runs.iter().any(|(_, _, tr)| {
                    tr.iter().map(|(a, b)| (rg.ids[*a], rg.ids[*b])).collect::<BTreeSet<_>>() == te
                });
            if !ok {
                bad(acc, "compute_dfs_tree", format!("vertices {:?} edges {:?} is not a DFS tree", tv, te));
            }
        }
        Some(Err(e)) => bad(acc, "compute_dfs_tree", format!("error {}", e)),
        None => {}
    }
    // dominance
    let dom = rg.dominators(r);
    let idom = rg.idoms(r);
    let exp_idoms: BTreeMap<usize, usize> = idom.iter().map(|(v, d)| (rg.ids[*v], rg.ids[*d])).collect();
    match call!(acc, rg, root_id, class, "compute_immediate_dominators", g.compute_immediate_dominators(root_id)) {
        Some(Ok(got)) => {
            let got: BTreeMap<usize, usize> = got.into_iter().collect();
            if got != exp_idoms {
                bad(acc, "compute_immediate_dominators", format!("got {:?} expected {:?}", got, exp_idoms));
            }
        }
        Some(Err(e)) => bad(acc, "compute_immediate_dominators", format!("error {}", e)),
        None => {}
    }
    match call!(acc, rg, root_id, class, "compute_dominators", g.compute_dominators(root_id)) {
        Some(Ok(got)) => {
            let got: BTreeMap<usize, BTreeSet<usize>> =
                got.into_iter().map(|(k, v)| (k, v.into_iter().collect())).collect();
            let exp: BTreeMap<usize, BTreeSet<usize>> = (0..n)
                .filter(|v| reach & (1 << v) != 0)
                .map(|v| (rg.ids[v], mask_ids(rg, dom[v])))
                .collect();
            if got != exp {
                bad(acc, "compute_dominators", format!("got {:?} expected {:?}", got, exp));
            }
        }
        Some(Err(e)) => bad(acc, "compute_dominators", format!("error {}", e)),
        None => {}
    }
    match call!(acc, rg, root_id, class, "compute_dominator_tree", g.compute_dominator_tree(root_id)) {
        Some(Ok(t)) => {
            let te: BTreeSet<(usize, usize)> = t
                .edges()
                .iter()
                .map(|e| (falcon::graph::Edge::head(*e), falcon::graph::Edge::tail(*e)))
                .collect();
            let exp: BTreeSet<(usize, usize)> = exp_idoms.iter().map(|(v, d)| (*d, *v)).collect();
            if te != exp {
                bad(acc, "compute_dominator_tree", format!("edges {:?} expected {:?}", te, exp));
            }
            // reachable vertices must all be present
            let tv: BTreeSet<usize> = t.vertices().iter().map(|v| falcon::graph::Vertex::index(*v)).collect();
            if !reach_ids.is_subset(&tv) {
                bad(acc, "compute_dominator_tree", format!("vertices {:?} miss reachable {:?}", tv, reach_ids));
            }
        }
        Some(Err(e)) => bad(acc, "compute_dominator_tree", format!("error {}", e)),
        None => {}
    }
    // dominance frontiers (for reachable x): y in DF(x) iff x dominates a reachable predecessor of y
    // and x does not strictly dominate y
    match call!(acc, rg, root_id, class, "compute_dominance_frontiers", g.compute_dominance_frontiers(root_id)) {
        Some(Ok(got)) => {
            for x in 0..n {
                if reach & (1 << x) == 0 {
                    continue;
                }
                let mut exp = BTreeSet::new();
                for y in 0..n {
                    if reach & (1 << y) == 0 {
                        continue;
                    }
                    let sdom = x != y && dom[y] & (1 << x) != 0;
                    let doms_pred = (0..n).any(|p| reach & (1 << p) != 0 && rg.adj[p][y] && dom[p] & (1 << x) != 0);
                    if doms_pred && !sdom {
                        exp.insert(rg.ids[y]);
                    }
                }
                let gx: BTreeSet<usize> = got.get(&rg.ids[x]).map(|s| s.iter().cloned().collect()).unwrap_or_default();
                if gx != exp {
                    bad(acc, "compute_dominance_frontiers", format!("DF({}) = {:?} expected {:?}", rg.ids[x], gx, exp));
                    break;
                }
            }
        }
        Some(Err(e)) => bad(acc, "compute_dominance_frontiers", format!("error {}", e)),
        None => {}
    }
    // natural loops on the reachable sub-graph
    let mut exp_loops: BTreeMap<usize, BTreeSet<usize>> = BTreeMap::new();
    for u in 0..n {
        for h in 0..n {
            if reach & (1 << u) != 0 && rg.adj[u][h] && dom[u] & (1 << h) != 0 {
                // back edge u -> h: nodes that reach u without passing through h
                let body = exp_loops.entry(rg.ids[h]).or_default();
                body.insert(rg.ids[h]);
                let mut seen = 1u32 << h;
                let mut stack = vec![];
                if seen & (1 << u) == 0 {
                    seen |= 1 << u;
                    stack.push(u);
                }
                while let Some(v) = stack.pop() {
                    for p in 0..n {
                        if rg.adj[p][v] && reach & (1 << p) != 0 && seen & (1 << p) == 0 {
                            seen |= 1 << p;
                            stack.push(p);
                        }
                    }
                }
                body.extend(mask_ids(rg, seen));
            }
        }
    }
    match call!(acc, rg, root_id, class, "compute_loops", g.compute_loops(root_id)) {
        Some(Ok(got)) => {
            let got: BTreeMap<usize, BTreeSet<usize>> = got.iter().map(|l| (l.header(), l.nodes().clone())).collect();
            if got != exp_loops {
                bad(acc, "compute_loops", format!("got {:?} expected {:?}", got, exp_loops));
            }
        }
        Some(Err(e)) => bad(acc, "compute_loops", format!("error {}", e)),
        None => {}
    }
    match call!(acc, rg, root_id, class, "compute_loop_tree", g.compute_loop_tree(root_id)) {
        Some(Ok(t)) => {
            let te: BTreeSet<(usize, usize)> = t
                .edges()
                .iter()
                .map(|e| (falcon::graph::Edge::head(*e), falcon::graph::Edge::tail(*e)))
                .collect();
            let mut exp = BTreeSet::new();
            for (h1, b1) in &exp_loops {
                for (h2, b2) in &exp_loops {
                    if h1 != h2 && b2.is_subset(b1) && b1 != b2 {
                        exp.insert((*h1, *h2));
                    }
                }
            }
            let tv: BTreeSet<usize> = t.vertices().iter().map(|v| v.header()).collect();
            let ev: BTreeSet<usize> = exp_loops.keys().cloned().collect();
            if te != exp || tv != ev {
                bad(acc, "compute_loop_tree", format!("nesting {:?} expected {:?} (loops {:?})", te, exp, exp_loops));
            }
        }
        Some(Err(e)) => bad(acc, "compute_loop_tree", format!("error {}", e)),
        None => {}
    }
    // reducibility
    match call!(acc, rg, root_id, class, "is_reducible", g.is_reducible(root_id)) {
        Some(Ok(got)) => {
            if all_reach && got != rg.reducible(r) {
                bad(acc, "is_reducible", format!("got {} expected {}", got, !got));
            }
        }
        Some(Err(e)) => bad(acc, "is_reducible", format!("error {}", e)),
        None => {}
    }
    // acyclicity from the root
    let clo = rg.closure();
    let cyc_from_root = (0..n).any(|v| reach & (1 << v) != 0 && clo[v][v]);
    if let Some(got) = call!(acc, rg, root_id, class, "is_acyclic", g.is_acyclic(root_id)) {
        if got == cyc_from_root {
            bad(acc, "is_acyclic", format!("got {} but a cycle {} reachable", got, if cyc_from_root { "is" } else { "is not" }));
        }
    }
    // compute_acyclic: acyclic sub-graph preserving reachability from the root
    match call!(acc, rg, root_id, class, "compute_acyclic", g.compute_acyclic(root_id)) {
        Some(Ok(t)) => {
            let te: Vec<(usize, usize)> = t
                .edges()
                .iter()
                .map(|e| (falcon::graph::Edge::head(*e), falcon::graph::Edge::tail(*e)))
                .collect();
            let mut sub = RefG { ids: rg.ids.clone(), adj: vec![vec![false; n]; n] };
            let mut is_sub = true;
            for (a, b) in &te {
                match (rg.pos(*a), rg.pos(*b)) {
                    (Some(i), Some(j)) if rg.adj[i][j] => sub.adj[i][j] = true,
                    _ => is_sub = false,
                }
            }
            let sc = sub.closure();
            let acyclic = !(0..n).any(|v| sc[v][v]);
            let keeps = sub.reach(r, None) == reach;
            if !is_sub || !acyclic || !keeps {
                bad(acc, "compute_acyclic", format!("edges {:?}: subgraph={} acyclic={} keeps-reachability={}", te, is_sub, acyclic, keeps));
            }
        }
        Some(Err(e)) => bad(acc, "compute_acyclic", format!("error {}", e)),
        None => {}
    }
    acc.outcome(&(exp_idoms, exp_loops, reach, cyc_from_root));
}

/// Root-independent checks.
pub fn check_rootless(g: &G, rg: &RefG, acc: &mut Acc) {
    let n = rg.n();
    let class = "rootless";
    let root_id = rg.ids.first().cloned().unwrap_or(0);
    let case = || rg.to_json(root_id);
    let clo = rg.closure();
    let cyclic = (0..n).any(|v| clo[v][v]);
    acc.count("evaluations", 1);
    match call!(acc, rg, root_id, class, "compute_topological_ordering", g.compute_topological_ordering()) {
        Some(Ok(got)) => {
            let mut ok = !cyclic && got.len() == n && got.iter().cloned().collect::<BTreeSet<_>>().len() == n;
            if ok {
                let posn: BTreeMap<usize, usize> = got.iter().enumerate().map(|(i, v)| (*v, i)).collect();
                for (a, b) in rg.edges() {
                    if !(posn.get(&a) < posn.get(&b)) {
                        ok = false;
                    }
                }
            }
            if !ok {
                acc.violation(
                    format!("C11|compute_topological_ordering|mismatch|{}", if cyclic { "cyclic" } else { "acyclic" }),
                    format!("returned {:?} (graph cyclic: {})", got, cyclic),
                    case(),
                );
            }
        }
        Some(Err(_)) => {
            if !cyclic {
                acc.violation("C11|compute_topological_ordering|error-on-acyclic|acyclic", "error on an acyclic graph", case());
            }
        }
        None => {}
    }
    match call!(acc, rg, root_id, class, "compute_predecessors", g.compute_predecessors()) {
        Some(Ok(got)) => {
            let got: BTreeMap<usize, BTreeSet<usize>> = got.into_iter().map(|(k, v)| (k, v.into_iter().collect())).collect();
            let exp: BTreeMap<usize, BTreeSet<usize>> = (0..n)
                .map(|v| (rg.ids[v], (0..n).filter(|u| clo[*u][v]).map(|u| rg.ids[u]).collect()))
                .collect();
            if got != exp {
                acc.violation("C11|compute_predecessors|mismatch|-", format!("got {:?} expected {:?}", got, exp), case());
            }
        }
        Some(Err(e)) => acc.violation("C11|compute_predecessors|error|-", format!("error {}", e), case()),
        None => {}
    }
    let nopred: BTreeSet<usize> = g.vertices_without_predecessors().iter().map(|v| falcon::graph::Vertex::index(*v)).collect();
    let exp: BTreeSet<usize> = (0..n).filter(|v| !(0..n).any(|u| rg.adj[u][*v])).map(|v| rg.ids[v]).collect();
    if nopred != exp {
        acc.violation("C11|vertices_without_predecessors|mismatch|-", format!("got {:?} expected {:?}", nopred, exp), case());
    }
    let nosucc: BTreeSet<usize> = g.vertices_without_successors().iter().map(|v| falcon::graph::Vertex::index(*v)).collect();
    let exp: BTreeSet<usize> = (0..n).filter(|v| !(0..n).any(|u| rg.adj[*v][u])).map(|v| rg.ids[v]).collect();
    if nosucc != exp {
        acc.violation("C11|vertices_without_successors|mismatch|-", format!("got {:?} expected {:?}", nosucc, exp), case());
    }
}

const IDS: [usize; 5] = [2, 5, 7, 11, 13];

fn graph_from_mask(n: usize, mask: u64, self_loops: bool) -> RefG {
    let mut adj = vec![vec![false; n]; n];
    let mut bit = 0;
    for i in 0..n {
        for j in 0..n {
            if i == j && !self_loops {
                continue;
            }
            adj[i][j] = mask & (1 << bit) != 0;
            bit += 1;
        }
    }
    RefG { ids: IDS[..n].to_vec(), adj }
}

// ---------------------------------------------------------------- edit histories (stateright)

#[derive(Clone, Debug, PartialEq)]
pub enum Op {
    InsV(usize),
    InsE(usize, usize),
    RemV(usize),
    RemE(usize, usize),
    RemUnreach(usize),
}
const EIDS: [usize; 3] = [1, 4, 9];

pub struct EditSubject;
pub struct EditObj {
    g: G,
    v: BTreeSet<usize>,
    e: BTreeSet<(usize, usize)>,
}
impl EditObj {
    fn refg(&self) -> RefG {
        let ids: Vec<usize> = self.v.iter().cloned().collect();
        let n = ids.len();
        let mut adj = vec![vec![false; n]; n];
        for (a, b) in &self.e {
            let (i, j) = (ids.iter().position(|x| x == a).unwrap(), ids.iter().position(|x| x == b).unwrap());
            adj[i][j] = true;
        }
        RefG { ids, adj }
    }
}

fn hist_json(s: &EditSubject, hist: &[Op], op: Option<&Op>) -> Value {
    let mut v: Vec<Value> = hist.iter().map(|o| s.op_json(o)).collect();
    if let Some(o) = op {
        v.push(s.op_json(o));
    }
    json!({"history": v})
}

impl Subject for EditSubject {
    type Op = Op;
    type Obj = EditObj;
    fn init(&self) -> EditObj {
        EditObj { g: G::new(), v: BTreeSet::new(), e: BTreeSet::new() }
    }
    fn ops(&self, _obj: &EditObj, _hist: &[Op]) -> Vec<Op> {
        let mut v = Vec::new();
        for a in EIDS {
            v.push(Op::InsV(a));
            v.push(Op::RemV(a));
            v.push(Op::RemUnreach(a));
            for b in EIDS {
                v.push(Op::InsE(a, b));
                v.push(Op::RemE(a, b));
            }
        }
        v
    }
    fn apply(&self, o: &mut EditObj, op: &Op, acc: &mut Acc, hist: &[Op]) {
        let (expect_ok, name): (bool, &str) = match op {
            Op::InsV(a) => (!o.v.contains(a), "insert_vertex"),
            Op::InsE(a, b) => (o.v.contains(a) && o.v.contains(b) && !o.e.contains(&(*a, *b)), "insert_edge"),
            Op::RemV(a) => (o.v.contains(a), "remove_vertex"),
            Op::RemE(a, b) => (o.e.contains(&(*a, *b)), "remove_edge"),
            Op::RemUnreach(a) => (o.v.contains(a), "remove_unreachable_vertices"),
        };
        let g = &mut o.g;
        let got = guarded(move || match op {
            Op::InsV(a) => g.insert_vertex(NullVertex::new(*a)).is_ok(),
            Op::InsE(a, b) => g.insert_edge(NullEdge::new(*a, *b)).is_ok(),
            Op::RemV(a) => g.remove_vertex(*a).is_ok(),
            Op::RemE(a, b) => g.remove_edge(*a, *b).is_ok(),
            Op::RemUnreach(a) => g.remove_unreachable_vertices(*a).is_ok(),
        });
        match got {
            Err(p) => acc.violation(
                format!("C11|edit:{}|panic:{}|{}", name, panic_class(&p), if expect_ok { "valid" } else { "invalid-args" }),
                format!("{} panicked: {}", name, p),
                hist_json(self, hist, Some(op)),
            ),
            Ok(ok) if ok != expect_ok => acc.violation(
                format!("C11|edit:{}|result|{}", name, if expect_ok { "error-on-valid" } else { "ok-on-invalid" }),
                format!("{} returned ok={} expected ok={}", name, ok, expect_ok),
                hist_json(self, hist, Some(op)),
            ),
            _ => {}
        }
        if expect_ok {
            match op {
                Op::InsV(a) => {
                    o.v.insert(*a);
                }
                Op::InsE(a, b) => {
                    o.e.insert((*a, *b));
                }
                Op::RemV(a) => {
                    o.v.remove(a);
                    o.e.retain(|(x, y)| x != a && y != a);
                }
                Op::RemE(a, b) => {
                    o.e.remove(&(*a, *b));
                }
                Op::RemUnreach(a) => {
                    let rg = o.refg();
                    let keep = mask_ids(&rg, rg.reach(rg.pos(*a).unwrap(), None));
                    o.v.retain(|x| keep.contains(x));
                    o.e.retain(|(x, y)| keep.contains(x) && keep.contains(y));
                }
            }
        }
    }
    fn canon(&self, o: &EditObj) -> Vec<u8> {
        format!("{:?}|{:?}|{:?}", o.g, o.v, o.e).into_bytes()
    }
    fn check(&self, o: &EditObj, hist: &[Op], acc: &mut Acc) {
        let g = &o.g;
        let case = || hist_json(self, hist, None);
        let r = guarded(|| {
            let mut problems: Vec<(String, String)> = Vec::new();
            let mut p = |view: &str, what: String| problems.push((view.to_string(), what));
            let vs: BTreeSet<usize> = g.vertices().iter().map(|v| falcon::graph::Vertex::index(*v)).collect();
            if vs != o.v {
                p("vertices", format!("{:?} expected {:?}", vs, o.v));
            }
            if g.num_vertices() != o.v.len() {
                p("num_vertices", format!("{}", g.num_vertices()));
            }
            let es: BTreeSet<(usize, usize)> =
                g.edges().iter().map(|e| (falcon::graph::Edge::head(*e), falcon::graph::Edge::tail(*e))).collect();
            if es != o.e {
                p("edges", format!("{:?} expected {:?}", es, o.e));
            }
            for a in EIDS {
                let present = o.v.contains(&a);
                if g.has_vertex(a) != present {
                    p("has_vertex", format!("{}", a));
                }
                if g.vertex(a).is_ok() != present {
                    p("vertex", format!("{}", a));
                }
                let succ: BTreeSet<usize> = o.e.iter().filter(|(x, _)| *x == a).map(|(_, y)| *y).collect();
                let pred: BTreeSet<usize> = o.e.iter().filter(|(_, y)| *y == a).map(|(x, _)| *x).collect();
                let chk = |name: &str, got: Result<BTreeSet<usize>, falcon::Error>, exp: &BTreeSet<usize>, p: &mut dyn FnMut(&str, String)| match got {
                    Ok(s) => {
                        if !present || s != *exp {
                            p(name, format!("vertex {}: {:?} expected {:?} (present={})", a, s, exp, present));
                        }
                    }
                    Err(_) => {
                        if present {
                            p(name, format!("vertex {}: error although present", a));
                        }
                    }
                };
                chk("successor_indices", g.successor_indices(a).map(|v| v.into_iter().collect()), &succ, &mut p);
                chk("predecessor_indices", g.predecessor_indices(a).map(|v| v.into_iter().collect()), &pred, &mut p);
                chk("successors", g.successors(a).map(|v| v.iter().map(|x| falcon::graph::Vertex::index(*x)).collect()), &succ, &mut p);
                chk("predecessors", g.predecessors(a).map(|v| v.iter().map(|x| falcon::graph::Vertex::index(*x)).collect()), &pred, &mut p);
                let eo = g.edges_out(a).map(|v| {
                    v.iter().map(|e| { if falcon::graph::Edge::head(*e) != a { usize::MAX } else { falcon::graph::Edge::tail(*e) } }).collect()
                });
                chk("edges_out", eo, &succ, &mut p);
                let ei = g.edges_in(a).map(|v| {
                    v.iter().map(|e| { if falcon::graph::Edge::tail(*e) != a { usize::MAX } else { falcon::graph::Edge::head(*e) } }).collect()
                });
                chk("edges_in", ei, &pred, &mut p);
                for b in EIDS {
                    if g.has_edge(a, b) != o.e.contains(&(a, b)) {
                        p("has_edge", format!("({},{})", a, b));
                    }
                    if g.edge(a, b).is_ok() != o.e.contains(&(a, b)) {
                        p("edge", format!("({},{})", a, b));
                    }
                }
            }
            problems
        });
        acc.count("evaluations", 1);
        acc.count("nontrivial", 1);
        match r {
            Err(pn) => acc.violation(format!("C11|edit-views|panic:{}|-", panic_class(&pn)), format!("view query panicked: {}", pn), case()),
            Ok(problems) => {
                for (view, what) in problems {
                    acc.violation(format!("C11|edit-view:{}|mismatch|-", view), format!("{} {}", view, what), case());
                }
            }
        }
        // derived algorithms on the edited object, from every root (start from non-initial states too)
        let rg = o.refg();
        let mut sub = Acc::new();
        for root in o.v.iter() {
            check_algos(g, &rg, *root, &mut sub);
        }
        if !o.v.is_empty() {
            check_rootless(g, &rg, &mut sub);
        }
        // tag the findings so that the history is what gets replayed
        for (k, mut f) in std::mem::take(&mut sub.findings) {
            f.case = json!({"history": hist.iter().map(|o| self.op_json(o)).collect::<Vec<_>>(), "graph": f.case});
            acc.findings.entry(k).and_modify(|g| g.count += f.count).or_insert(f);
        }
        sub.counters.remove("evaluations");
        sub.counters.remove("nontrivial");
        acc.count("algo_checks_on_edited_graphs", sub.get("evaluations"));
    }
    fn op_json(&self, op: &Op) -> Value {
        match op {
            Op::InsV(a) => json!(["insert_vertex", a]),
            Op::InsE(a, b) => json!(["insert_edge", a, b]),
            Op::RemV(a) => json!(["remove_vertex", a]),
            Op::RemE(a, b) => json!(["remove_edge", a, b]),
            Op::RemUnreach(a) => json!(["remove_unreachable_vertices", a]),
        }
    }
}

fn op_parse(v: &Value) -> Op {
    let n = |i: usize| v[i].as_u64().unwrap() as usize;
    match v[0].as_str().unwrap() {
        "insert_vertex" => Op::InsV(n(1)),
        "insert_edge" => Op::InsE(n(1), n(2)),
        "remove_vertex" => Op::RemV(n(1)),
        "remove_edge" => Op::RemE(n(1), n(2)),
        _ => Op::RemUnreach(n(1)),
    }
}

fn run(ctx: &Ctx) -> Acc {
    let mut acc = Acc::new();
    // (b) edit histories: one worker (the last shard) runs the stateright search with a few threads
    if ctx.shard == ctx.nshards - 1 {
        let a = explore_traced(EditSubject, None, 4, ctx.trace_path.as_deref());
        acc.merge(a);
        acc.count("traces", acc.get("stateright_unique_states"));
        acc.sample(json!({"history": [["insert_vertex",1],["insert_vertex",4],["insert_edge",1,4],["remove_vertex",4]], "checked": "all views + all algorithms from every root"}));
    }
    // (a) grid
    let mut unit: u64 = 0;
    let maxn = 4;
    for n in 1..=maxn {
        let bits = n * n;
        for mask in 0..(1u64 << bits) {
            unit += 1;
            if !ctx.mine(unit) {
                continue;
            }
            let rg = graph_from_mask(n, mask, true);
            grid_case(ctx, &rg, &mut acc);
        }
    }
    if ctx.tier.thorough() {
        // every digraph on 5 vertices, self-loops included (2^25 graphs x 5 roots)
        let n = 5;
        for mask in 0..(1u64 << 25) {
            unit += 1;
            if !ctx.mine(unit) {
                continue;
            }
            let rg = graph_from_mask(n, mask, true);
            grid_case(ctx, &rg, &mut acc);
        }
    }
    if ctx.shard == 0 {
        let rg = graph_from_mask(4, 0b0110_1000_0100_0010, true);
        acc.sample(json!({"graph": rg.to_json(2), "oracle_idoms": rg.idoms(0).iter().map(|(v,d)| (rg.ids[*v], rg.ids[*d])).collect::<Vec<_>>()}));
    }
    acc
}

fn grid_case(ctx: &Ctx, rg: &RefG, acc: &mut Acc) {
    ctx.trace(|| format!("grid\t{}", rg.to_json(rg.ids[0])));
    let g = rg.build();
    acc.count("states", 1);
    for root in rg.ids.clone() {
        check_algos(&g, rg, root, acc);
        acc.count("transitions", 1);
    }
    check_rootless(&g, rg, acc);
}

fn replay(case: &Value) -> Acc {
    let mut acc = Acc::new();
    if let Some(h) = case.get("history").and_then(|h| h.as_array()) {
        let s = EditSubject;
        let mut o = s.init();
        let ops: Vec<Op> = h.iter().map(op_parse).collect();
        for (i, op) in ops.iter().enumerate() {
            s.apply(&mut o, op, &mut acc, &ops[..i]);
            s.check(&o, &ops[..=i], &mut acc);
        }
    } else {
        let (rg, root) = RefG::from_json(case);
        let g = rg.build();
        check_algos(&g, &rg, root, &mut acc);
        check_rootless(&g, &rg, &mut acc);
    }
    acc
}
