//! C15 — CFG construction and editing keep graphs consistent and meaning intact.
use crate::explore::history::{explore_traced, Subject};
use crate::report::{Acc, Describe};
use crate::util::{guarded, panic_class};
use crate::{Ctx, Prop};
use falcon::il::{self, ControlFlowGraph as Cfg, Expression as E};
use falcon::translator::BlockTranslationResult;
use serde_json::{json, Value};
use std::collections::{BTreeMap, BTreeSet};

pub fn prop() -> Prop {
    Prop {
        id: "C15",
        describe,
        run,
        replay,
        shards: |_| 2,
        timeout_s: |t| if t.thorough() { 3400 } else { 300 },
        mem_limit: 24 << 30,
    }
}

fn describe() -> Describe {
    Describe {
        id: "C15",
        level: "model_checking",
        rule: "stateright BFS over ALL histories that start from the empty graph, one of 5 library graphs (single block, chain, \
               diamond, self-loop with exit, rep-style loop) or a 3-block chain whose indices descend along the edges, and apply new_block, tagged push, unconditional/conditional edges \
               (guards g / !g), set_entry, set_exit, merge, append(lib), insert(lib), remove_instruction(first/last), \
               Block::append to the stated depth (error paths with a non-existing block included). In every state: edges join \
               existing blocks, predecessor/successor/edges_in/edges_out agree with edges(), instruction indices unique per block, \
               entry/exit name existing blocks. On every merge/append transition the set of tag/guard traces (length <= 8) from the \
               entry, computed by a harness flattening, must be unchanged (merge) or equal the sequential composition (append). \
               Separately: blockify() of every sequence of <=3 library graphs. State key = depth + Debug dump of the real graph.",
        assumptions: vec![
            "trace language bounded at 8 symbols".into(),
            "append composition is checked when the destination's exit block has no outgoing edges (as for lifter graphs) or in general by path semantics".into(),
        ],
        engine: "stateright 0.31 spawn_bfs over the real ControlFlowGraph (history replay), 8 threads; grid for blockify",
    }
}

fn g() -> E {
    E::cmpeq(il::expr_scalar("g", 1), il::expr_const(1, 1)).unwrap()
}
fn ng() -> E {
    E::cmpeq(il::expr_scalar("g", 1), il::expr_const(0, 1)).unwrap()
}
fn tag(b: &mut il::Block, t: u64) {
    b.assign(il::scalar("t", 16), il::expr_const(t, 16));
}

pub fn library(i: usize) -> Cfg {
    let mut c = Cfg::new();
    match i {
        0 => {
            let b = c.new_block().unwrap();
            tag(b, 100);
            c.set_entry(0).unwrap();
            c.set_exit(0).unwrap();
        }
        1 => {
            tag(c.new_block().unwrap(), 110);
            tag(c.new_block().unwrap(), 111);
            c.unconditional_edge(0, 1).unwrap();
            c.set_entry(0).unwrap();
            c.set_exit(1).unwrap();
        }
        2 => {
            tag(c.new_block().unwrap(), 120);
            tag(c.new_block().unwrap(), 121);
            tag(c.new_block().unwrap(), 122);
            c.new_block().unwrap();
            c.conditional_edge(0, 1, g()).unwrap();
            c.conditional_edge(0, 2, ng()).unwrap();
            c.unconditional_edge(1, 3).unwrap();
            c.unconditional_edge(2, 3).unwrap();
            c.set_entry(0).unwrap();
            c.set_exit(3).unwrap();
        }
        3 => {
            tag(c.new_block().unwrap(), 130);
            c.new_block().unwrap();
            c.conditional_edge(0, 0, g()).unwrap();
            c.conditional_edge(0, 1, ng()).unwrap();
            c.set_entry(0).unwrap();
            c.set_exit(1).unwrap();
        }
        5 => {
            // a chain whose block indices DESCEND along the edges (entry created last): 2 -> 1 -> 0.
            // Only a starting graph, never an argument of append/insert (NLIB stays 5).
            tag(c.new_block().unwrap(), 150);
            tag(c.new_block().unwrap(), 151);
            tag(c.new_block().unwrap(), 152);
            c.unconditional_edge(2, 1).unwrap();
            c.unconditional_edge(1, 0).unwrap();
            c.set_entry(2).unwrap();
            c.set_exit(0).unwrap();
        }
        _ => {
            // rep-style: head -> body -> head, head -> exit
            c.new_block().unwrap();
            tag(c.new_block().unwrap(), 140);
            tag(c.new_block().unwrap(), 141);
            c.conditional_edge(0, 1, g()).unwrap();
            c.conditional_edge(0, 2, ng()).unwrap();
            c.unconditional_edge(1, 0).unwrap();
            c.set_entry(0).unwrap();
            c.set_exit(2).unwrap();
        }
    }
    c
}
const NLIB: usize = 5;

/// Bounded trace language from the entry: every prefix (length <= L) of tag/guard sequences, plus the
/// set of COMPLETE sequences that end exactly at the end of block `mark` (used for append).
const L: usize = 8;
fn traces(c: &Cfg, mark: Option<usize>) -> (BTreeSet<Vec<String>>, BTreeSet<Vec<String>>) {
    let mut all = BTreeSet::new();
    let mut at_mark = BTreeSet::new();
    let entry = match c.entry() {
        Some(e) if c.block(e).is_ok() => e,
        _ => return (all, at_mark),
    };
    all.insert(vec![]); // the empty prefix
    // work list of (block, sequence so far); block-level steps
    let mut stack: Vec<(usize, Vec<String>)> = vec![(entry, vec![])];
    let mut seen: BTreeSet<(usize, Vec<String>)> = BTreeSet::new();
    while let Some((b, mut seq)) = stack.pop() {
        if !seen.insert((b, seq.clone())) {
            continue;
        }
        let blk = match c.block(b) {
            Ok(x) => x,
            Err(_) => continue,
        };
        let mut full = true;
        for ins in blk.instructions() {
            if seq.len() >= L {
                full = false;
                break;
            }
            seq.push(format!("{}", ins.operation()));
            all.insert(seq.clone());
        }
        if !full {
            continue;
        }
        all.insert(seq.clone());
        if Some(b) == mark {
            at_mark.insert(seq.clone());
        }
        for e in c.edges() {
            if e.head() == b {
                let mut s2 = seq.clone();
                if let Some(cond) = e.condition() {
                    if s2.len() >= L {
                        continue;
                    }
                    s2.push(format!("?{}", cond));
                    all.insert(s2.clone());
                }
                stack.push((e.tail(), s2));
            }
        }
    }
    (all, at_mark)
}

#[derive(Clone, Debug, PartialEq)]
pub enum Op {
    Start(usize), // 0 = empty, 1.. = library graph i-1
    NewBlock,
    Push(usize),
    Uncond(usize, usize),
    Cond(usize, usize, bool),
    SetEntry(usize),
    SetExit(usize),
    Merge,
    Append(usize),
    /// the current graph becomes the ARGUMENT of append: receiver 0 = an empty graph, r >= 1 = library graph r-1
    AppendTo(usize),
    Insert(usize),
    Remove(usize, bool), // first / last
    BlockAppend(usize, usize),
}

pub struct Sub {
    level: u8,
}

fn hist_json(s: &Sub, hist: &[Op], op: Option<&Op>) -> Value {
    let mut v: Vec<Value> = hist.iter().map(|o| s.op_json(o)).collect();
    if let Some(o) = op {
        v.push(s.op_json(o));
    }
    json!({"history": v})
}

fn invariants(c: &Cfg) -> Vec<(String, String)> {
    let mut bad = Vec::new();
    let blocks: BTreeSet<usize> = c.blocks().iter().map(|b| b.index()).collect();
    let edges: BTreeSet<(usize, usize)> = c.edges().iter().map(|e| (e.head(), e.tail())).collect();
    if edges.len() != c.edges().len() {
        bad.push(("duplicate-edges".to_string(), format!("{:?}", edges)));
    }
    for (h, t) in &edges {
        if !blocks.contains(h) || !blocks.contains(t) {
            bad.push(("dangling-edge".to_string(), format!("edge {}->{} but blocks {:?}", h, t, blocks)));
        }
    }
    for b in &blocks {
        let succ: BTreeSet<usize> = edges.iter().filter(|(h, _)| h == b).map(|(_, t)| *t).collect();
        let pred: BTreeSet<usize> = edges.iter().filter(|(_, t)| t == b).map(|(h, _)| *h).collect();
        let q = |name: &str, got: Result<BTreeSet<usize>, falcon::Error>, exp: &BTreeSet<usize>, bad: &mut Vec<(String, String)>| match got {
            Ok(s) if s == *exp => {}
            Ok(s) => bad.push((format!("query-{}", name), format!("block {}: {:?} expected {:?}", b, s, exp))),
            Err(e) => bad.push((format!("query-{}", name), format!("block {}: error {}", b, e))),
        };
        q("successor_indices", c.successor_indices(*b).map(|v| v.into_iter().collect()), &succ, &mut bad);
        q("predecessor_indices", c.predecessor_indices(*b).map(|v| v.into_iter().collect()), &pred, &mut bad);
        q("edges_out", c.edges_out(*b).map(|v| v.iter().map(|e| e.tail()).collect()), &succ, &mut bad);
        q("edges_in", c.edges_in(*b).map(|v| v.iter().map(|e| e.head()).collect()), &pred, &mut bad);
        let blk = c.block(*b).unwrap();
        if blk.index() != *b {
            bad.push(("block-index".to_string(), format!("block stored under {} reports {}", b, blk.index())));
        }
        let idx: Vec<usize> = blk.instructions().iter().map(|i| i.index()).collect();
        let uniq: BTreeSet<usize> = idx.iter().cloned().collect();
        if uniq.len() != idx.len() {
            bad.push(("duplicate-instruction-index".to_string(), format!("block {}: {:?}", b, idx)));
        }
    }
    if let Some(e) = c.entry() {
        if !blocks.contains(&e) {
            bad.push(("entry-names-missing-block".to_string(), format!("entry {} blocks {:?}", e, blocks)));
        }
    }
    if let Some(x) = c.exit() {
        if !blocks.contains(&x) {
            bad.push(("exit-names-missing-block".to_string(), format!("exit {} blocks {:?}", x, blocks)));
        }
    }
    bad
}

impl Subject for Sub {
    type Op = Op;
    type Obj = Cfg;
    fn init(&self) -> Cfg {
        Cfg::new()
    }
    fn ops(&self, c: &Cfg, hist: &[Op]) -> Vec<Op> {
        if hist.is_empty() {
            return (0..=NLIB + 1).map(Op::Start).collect();
        }
        let mut v = Vec::new();
        let mut blocks: Vec<usize> = c.blocks().iter().map(|b| b.index()).collect();
        // keep the alphabet bounded: the three lowest and the highest block
        if blocks.len() > 4 {
            let last = *blocks.last().unwrap();
            blocks.truncate(3);
            blocks.push(last);
        }
        let with_missing: Vec<usize> = blocks.iter().cloned().chain([77]).collect();
        if c.blocks().len() < 6 {
            v.push(Op::NewBlock);
        }
        for &b in &blocks {
            v.push(Op::Push(b));
        }
        let edge_blocks: &[usize] = if self.level >= 2 { &with_missing } else { &blocks };
        for &h in edge_blocks {
            for &t in edge_blocks {
                v.push(Op::Uncond(h, t));
                if self.level >= 1 {
                    v.push(Op::Cond(h, t, true));
                    v.push(Op::Cond(h, t, false));
                }
            }
        }
        for &b in &with_missing {
            v.push(Op::SetEntry(b));
            v.push(Op::SetExit(b));
        }
        v.push(Op::Merge);
        let libs: Vec<usize> = if self.level >= 2 { (0..NLIB).collect() } else { vec![1, 3] };
        for &i in &libs {
            v.push(Op::Append(i));
        }
        v.push(Op::AppendTo(0));
        if self.level >= 1 {
            v.push(Op::AppendTo(2));
        }
        for &i in &libs {
            v.push(Op::Insert(i));
        }
        for &b in &blocks {
            v.push(Op::Remove(b, true));
            if self.level >= 1 {
                v.push(Op::Remove(b, false));
            }
        }
        if self.level >= 1 {
            for &b in &blocks {
                v.push(Op::BlockAppend(b, 1));
            }
        }
        v
    }
    fn apply(&self, c: &mut Cfg, op: &Op, acc: &mut Acc, hist: &[Op]) {
        let case = || hist_json(self, hist, Some(op));
        let exists = |c: &Cfg, b: usize| c.block(b).is_ok();
        let before = c.clone();
        let depth = hist.len() as u64;
        let r = guarded(|| -> Result<(), String> {
            match op {
                Op::Start(0) => {}
                Op::Start(i) => *c = library(i - 1),
                Op::NewBlock => {
                    c.new_block().map_err(|e| e.to_string())?;
                }
                Op::Push(b) => tag(c.block_mut(*b).map_err(|e| e.to_string())?, depth),
                Op::Uncond(h, t) => c.unconditional_edge(*h, *t).map_err(|e| e.to_string())?,
                Op::Cond(h, t, pos) => c.conditional_edge(*h, *t, if *pos { g() } else { ng() }).map_err(|e| e.to_string())?,
                Op::SetEntry(b) => c.set_entry(*b).map_err(|e| e.to_string())?,
                Op::SetExit(b) => c.set_exit(*b).map_err(|e| e.to_string())?,
                Op::Merge => c.merge().map_err(|e| e.to_string())?,
                Op::Append(i) => c.append(&library(*i)).map_err(|e| e.to_string())?,
                Op::AppendTo(r) => {
                    let mut recv = if *r == 0 { Cfg::new() } else { library(*r - 1) };
                    recv.append(c).map_err(|e| e.to_string())?;
                    *c = recv;
                }
                Op::Insert(i) => {
                    c.insert(&library(*i)).map_err(|e| e.to_string())?;
                }
                Op::Remove(b, first) => {
                    let blk = c.block_mut(*b).map_err(|e| e.to_string())?;
                    let idx = if *first { blk.instructions().first().map(|i| i.index()) } else { blk.instructions().last().map(|i| i.index()) };
                    match idx {
                        Some(i) => blk.remove_instruction(i).map_err(|e| e.to_string())?,
                        None => return Err("empty".into()),
                    }
                }
                Op::BlockAppend(b, i) => {
                    let lib = library(*i);
                    let other = lib.block(0).unwrap().clone();
                    c.block_mut(*b).map_err(|e| e.to_string())?.append(&other);
                }
            }
            Ok(())
        });
        let opname = self.op_json(op)[0].as_str().unwrap_or("").to_string();
        match r {
            Err(pn) => {
                acc.violation(format!("C15|{}|panic:{}", opname, panic_class(&pn)), format!("{} panicked: {}", opname, pn), case());
                return;
            }
            Ok(Err(_)) => {
                // expected errors: arguments naming missing blocks, duplicate edges, missing entry/exit for append
                let expected_err = match op {
                    Op::Push(b) | Op::SetEntry(b) | Op::SetExit(b) | Op::BlockAppend(b, _) => !exists(&before, *b),
                    Op::Remove(b, _) => !exists(&before, *b) || before.block(*b).map(|x| x.is_empty()).unwrap_or(true),
                    Op::Uncond(h, t) | Op::Cond(h, t, _) => !exists(&before, *h) || !exists(&before, *t) || before.edge(*h, *t).is_ok(),
                    Op::Append(_) => !before.blocks().is_empty() && (before.entry().is_none() || before.exit().is_none()),
                    Op::AppendTo(_) => before.entry().is_none() || before.exit().is_none(),
                    _ => false,
                };
                if !expected_err {
                    acc.violation(format!("C15|{}|unexpected-error", opname), format!("{} failed on valid arguments", opname), case());
                }
                // an operation that reports an error must not have half-applied itself
                if format!("{:?}", before) != format!("{:?}", c) && !matches!(op, Op::Insert(_)) {
                    acc.violation(format!("C15|{}|error-but-graph-changed", opname), "operation returned an error but modified the graph".to_string(), case());
                }
                return;
            }
            Ok(Ok(())) => {
                let should_fail = match op {
                    Op::Uncond(h, t) | Op::Cond(h, t, _) => !exists(&before, *h) || !exists(&before, *t) || before.edge(*h, *t).is_ok(),
                    Op::SetEntry(b) | Op::SetExit(b) => !exists(&before, *b),
                    _ => false,
                };
                if should_fail {
                    acc.violation(format!("C15|{}|ok-on-invalid-arguments", opname), format!("{} succeeded on invalid arguments", opname), case());
                }
            }
        }
        // meaning
        match op {
            Op::Merge => {
                let (t0, _) = traces(&before, None);
                let (t1, _) = traces(c, None);
                if t0 != t1 {
                    let d: Vec<_> = t0.symmetric_difference(&t1).take(2).cloned().collect();
                    acc.violation("C15|merge|traces-changed", format!("merge changed the executable instruction sequences, e.g. {:?}", d), case());
                }
                if before.entry() != c.entry() {
                    acc.violation("C15|merge|entry-changed", format!("{:?} -> {:?}", before.entry(), c.entry()), case());
                }
                acc.count("merge_transitions_checked", 1);
            }
            Op::Append(_) | Op::AppendTo(_) => {
                // `first` then `second`
                let (first, second) = match op {
                    Op::Append(i) => (before.clone(), library(*i)),
                    Op::AppendTo(0) => (Cfg::new(), before.clone()),
                    Op::AppendTo(r) => (library(*r - 1), before.clone()),
                    _ => unreachable!(),
                };
                let before = first;
                let lib = second;
                let (tl, _) = traces(&lib, None);
                let expect: BTreeSet<Vec<String>> = if before.blocks().is_empty() {
                    tl
                } else {
                    let (t0, at_exit) = traces(&before, before.exit());
                    let mut e = t0;
                    for p in &at_exit {
                        for q in &tl {
                            if p.len() + q.len() <= L {
                                let mut s = p.clone();
                                s.extend(q.iter().cloned());
                                e.insert(s);
                            }
                        }
                    }
                    e
                };
                let (t1, _) = traces(c, None);
                if t1 != expect {
                    let d: Vec<_> = t1.symmetric_difference(&expect).take(2).cloned().collect();
                    acc.violation("C15|append|traces-not-sequential-composition", format!("e.g. {:?}", d), case());
                }
                // the new exit is the appended graph's exit: complete runs of the second graph end there
                acc.count("append_transitions_checked", 1);
            }
            _ => {}
        }
    }
    fn canon(&self, c: &Cfg) -> Vec<u8> {
        format!("{:?}", c).into_bytes()
    }
    fn check(&self, c: &Cfg, hist: &[Op], acc: &mut Acc) {
        acc.count("evaluations", 1);
        if !c.blocks().is_empty() {
            acc.count("nontrivial", 1);
        }
        let last = hist.last().map(|o| self.op_json(o)[0].as_str().unwrap_or("").to_string()).unwrap_or_else(|| "initial".into());
        match guarded(|| invariants(c)) {
            Err(pn) => acc.violation(format!("C15|invariants|panic:{}", panic_class(&pn)), format!("query panicked: {}", pn), hist_json(self, hist, None)),
            Ok(bad) => {
                for (k, what) in bad {
                    acc.violation(format!("C15|invariant|{}|after:{}", k, last), what, hist_json(self, hist, None));
                }
            }
        }
    }
    fn op_json(&self, op: &Op) -> Value {
        match op {
            Op::Start(i) => json!(["start", i]),
            Op::NewBlock => json!(["new_block"]),
            Op::Push(b) => json!(["push", b]),
            Op::Uncond(h, t) => json!(["unconditional_edge", h, t]),
            Op::Cond(h, t, p) => json!(["conditional_edge", h, t, p]),
            Op::SetEntry(b) => json!(["set_entry", b]),
            Op::SetExit(b) => json!(["set_exit", b]),
            Op::Merge => json!(["merge"]),
            Op::Append(i) => json!(["append", i]),
            Op::AppendTo(r) => json!(["append_to", r]),
            Op::Insert(i) => json!(["insert", i]),
            Op::Remove(b, f) => json!(["remove_instruction", b, f]),
            Op::BlockAppend(b, i) => json!(["block_append", b, i]),
        }
    }
}

fn op_parse(v: &Value) -> Op {
    let n = |i: usize| v[i].as_u64().unwrap() as usize;
    match v[0].as_str().unwrap() {
        "start" => Op::Start(n(1)),
        "new_block" => Op::NewBlock,
        "push" => Op::Push(n(1)),
        "unconditional_edge" => Op::Uncond(n(1), n(2)),
        "conditional_edge" => Op::Cond(n(1), n(2), v[3].as_bool().unwrap()),
        "set_entry" => Op::SetEntry(n(1)),
        "set_exit" => Op::SetExit(n(1)),
        "merge" => Op::Merge,
        "append" => Op::Append(n(1)),
        "append_to" => Op::AppendTo(n(1)),
        "insert" => Op::Insert(n(1)),
        "remove_instruction" => Op::Remove(n(1), v[2].as_bool().unwrap()),
        _ => Op::BlockAppend(n(1), n(2)),
    }
}

fn check_blockify(acc: &mut Acc, seq: &[usize]) {
    let case = || json!({"blockify": seq});
    acc.count("evaluations", 1);
    let instrs: Vec<(u64, Cfg)> = seq.iter().enumerate().map(|(k, i)| (0x1000 + k as u64, library(*i))).collect();
    let btr = BlockTranslationResult::new(instrs, 0x1000, seq.len(), vec![]);
    match guarded(|| btr.blockify()) {
        Err(pn) => acc.violation(format!("C15|blockify|panic:{}", panic_class(&pn)), format!("panicked: {}", pn), case()),
        Ok(Err(e)) => acc.violation("C15|blockify|error", format!("error: {}", e), case()),
        Ok(Ok(c)) => {
            for (k, what) in invariants(&c) {
                acc.violation(format!("C15|invariant|{}|after:blockify", k), what, case());
            }
            // meaning: sequential composition of the library graphs
            let mut expect: BTreeSet<Vec<String>> = [vec![]].into_iter().collect();
            let mut complete: BTreeSet<Vec<String>> = [vec![]].into_iter().collect();
            for i in seq {
                let lib = library(*i);
                let (tl, tc) = traces(&lib, lib.exit());
                let mut ne = expect.clone();
                let mut nc = BTreeSet::new();
                for p in &complete {
                    for q in &tl {
                        if p.len() + q.len() <= L {
                            let mut s = p.clone();
                            s.extend(q.iter().cloned());
                            ne.insert(s);
                        }
                    }
                    for q in &tc {
                        if p.len() + q.len() <= L {
                            let mut s = p.clone();
                            s.extend(q.iter().cloned());
                            nc.insert(s);
                        }
                    }
                }
                expect = ne;
                complete = nc;
            }
            let (t1, _) = traces(&c, None);
            if t1 != expect {
                let d: Vec<_> = t1.symmetric_difference(&expect).take(2).cloned().collect();
                acc.violation("C15|blockify|traces-not-sequential-composition", format!("e.g. {:?}", d), case());
            }
            acc.count("nontrivial", 1);
        }
    }
}

fn run(ctx: &Ctx) -> Acc {
    let mut acc = Acc::new();
    let thorough = ctx.tier.thorough();
    if ctx.shard == 0 {
        // depth counts the Start pseudo-operation
        let (lvl, depth) = if thorough { (1u8, 5usize) } else { (1u8, 4usize) };
        let a = explore_traced(Sub { level: lvl }, Some(depth), 8, ctx.trace_path.as_deref());
        acc.merge(a);
        acc.max("max_depth_reduced_alphabet", (depth - 1) as u64);
        acc.count("traces", acc.get("merge_transitions_checked") + acc.get("append_transitions_checked"));
        acc.sample(json!({"history": [["start", 2], ["merge"]], "checked": "invariants in every state, trace language across merge/append"}));
    } else if ctx.shard == 1 {
        let depth = if thorough { 4usize } else { 3usize };
        let a = explore_traced(Sub { level: 2 }, Some(depth), 8, ctx.trace_path.as_deref());
        acc.merge(a);
        acc.max("max_depth_full_alphabet", (depth - 1) as u64);
        let mut seqs: Vec<Vec<usize>> = vec![vec![]];
        for len in 1..=3 {
            let mut cur: Vec<Vec<usize>> = vec![vec![]];
            for _ in 0..len {
                cur = cur.into_iter().flat_map(|p| (0..NLIB).map(move |i| { let mut q = p.clone(); q.push(i); q })).collect();
            }
            seqs.extend(cur);
        }
        for s in &seqs {
            check_blockify(&mut acc, s);
        }
        acc.sample(json!({"blockify": [1, 3]}));
    }
    acc
}

fn replay(case: &Value) -> Acc {
    let mut acc = Acc::new();
    if let Some(seq) = case.get("blockify").and_then(|s| s.as_array()) {
        let seq: Vec<usize> = seq.iter().map(|x| x.as_u64().unwrap() as usize).collect();
        check_blockify(&mut acc, &seq);
        return acc;
    }
    let s = Sub { level: 2 };
    let mut c = s.init();
    let ops: Vec<Op> = case["history"].as_array().map(|h| h.iter().map(op_parse).collect()).unwrap_or_default();
    for (i, op) in ops.iter().enumerate() {
        s.apply(&mut c, op, &mut acc, &ops[..i]);
        s.check(&c, &ops[..=i], &mut acc);
    }
    acc
}

#[allow(dead_code)]
fn unused(_: BTreeMap<u8, u8>) {}
