//! C13 — constant propagation never reports a value an execution contradicts.
use crate::bv::Val;
use crate::gen::{self, Alphabet, ProgSpec, Succ};
use crate::props::c12::{self, expr_scalars, op_reads, op_writes};
use crate::refil::{self, IntrinsicMode, Loc, RState, Step};
use crate::report::{Acc, Describe};
use crate::util::{guarded, panic_class};
use crate::{Ctx, Prop};
use falcon::analysis::constants::{constants, Constants};
use falcon::il::{self, Expression as E, FunctionLocation as FL};
use serde_json::{json, Value};
use std::collections::{BTreeMap, BTreeSet, HashSet};

pub fn prop() -> Prop {
    Prop {
        id: "C13",
        describe,
        run,
        replay,
        shards: |_| 16,
        timeout_s: |t| if t.thorough() { 3400 } else { 300 },
        mem_limit: 4 << 30,
    }
}

fn describe() -> Describe {
    Describe {
        id: "C13",
        level: "model_checking",
        rule: "every IL function on <=2 blocks (thorough: 3) x every filling with <=3 (3-block: 2) instructions from {x=0, x=1, \
               x=(x+1)&3, y=x, y=x+x, x=[c], indirect branch, intrinsic(writes x), intrinsic(undeclared)} x guards on x x every entry; \
               each concrete execution (9 initial valuations x 2 intrinsic-effect variants, loops closed by state dedup) runs in \
               product with an assigned-scalar monitor: before every location each reported constant of an assigned scalar must \
               equal its concrete value, and Constants::eval of 7 expressions must decline or return the concrete value. \
               Completion: on every function that passes the harness' definite-assignment check constants() must return Ok.",
        assumptions: vec![
            "intrinsic effects: variant A identity, variant B sets declared-written scalars (all scalars for undeclared intrinsics) to 2".into(),
            "executions end at an indirect branch".into(),
            "reference IL semantics written in the harness (refil)".into(),
        ],
        engine: "program enumerator + product explorer with assigned-set monitor (16 processes)",
    }
}

fn alphabet() -> Alphabet {
    let x = || il::scalar("x", 8);
    let y = || il::scalar("y", 8);
    let ex = || E::scalar(x());
    let ey = || E::scalar(y());
    let c = |v: u64| il::expr_const(v, 8);
    let ops = vec![
        il::Operation::assign(x(), c(0)),
        il::Operation::assign(x(), c(1)),
        il::Operation::assign(x(), E::and(E::add(ex(), c(1)).unwrap(), c(3)).unwrap()),
        il::Operation::assign(y(), ex()),
        il::Operation::assign(y(), E::add(ex(), ex()).unwrap()),
        il::Operation::load(x(), il::expr_const(0x10, 64)),
        il::Operation::branch(E::zext(64, ey()).unwrap()),
        il::Operation::intrinsic(il::Intrinsic::new("rdx", "rdx", vec![], Some(vec![ex()]), Some(vec![ey()]), vec![0x90])),
        il::Operation::intrinsic(il::Intrinsic::new("unk", "unk", vec![], None, None, vec![0x90])),
        // a declared write through a compound expression (part of a register) still clobbers the register, and a
        // placeholder no-op assigns nothing
        il::Operation::intrinsic(il::Intrinsic::new("wlo", "wlo", vec![], Some(vec![E::trun(4, ex()).unwrap()]), Some(vec![]), vec![0x92])),
        il::Operation::placeholder(il::Operation::assign(x(), c(1))),
    ];
    let guards = vec![(E::cmpeq(ex(), c(0)).unwrap(), E::cmpneq(ex(), c(0)).unwrap())];
    Alphabet { ops, guards, guards3: vec![] }
}

fn probe_exprs() -> Vec<E> {
    let ex = || il::expr_scalar("x", 8);
    let ey = || il::expr_scalar("y", 8);
    vec![
        ex(),
        ey(),
        E::add(ex(), ey()).unwrap(),
        E::sub(ex(), ex()).unwrap(),
        E::and(E::add(ex(), il::expr_const(1, 8)).unwrap(), il::expr_const(3, 8)).unwrap(),
        E::add(ex(), ex()).unwrap(),
        E::zext(64, ey()).unwrap(),
    ]
}

/// definite-assignment check: can some scalar be read before it is assigned on a path from the entry?
fn reads_before_assignment(f: &il::Function, entry: usize) -> bool {
    // block-level must-assigned analysis over reachable blocks
    let n = f.blocks().len();
    let all: BTreeSet<String> = ["x".to_string(), "y".to_string()].into_iter().collect();
    let mut reach = vec![false; n];
    let mut st = vec![entry];
    while let Some(b) = st.pop() {
        if std::mem::replace(&mut reach[b], true) {
            continue;
        }
        for e in f.edges() {
            if e.head() == b {
                st.push(e.tail());
            }
        }
    }
    let mut inn: Vec<BTreeSet<String>> = vec![all.clone(); n];
    inn[entry] = BTreeSet::new();
    let block_out = |b: usize, start: &BTreeSet<String>| -> (BTreeSet<String>, bool) {
        let mut a = start.clone();
        let mut bad = false;
        for ins in f.block(b).unwrap().instructions() {
            if let Some(r) = op_reads(ins.operation()) {
                if !r.is_subset(&a) {
                    bad = true;
                }
            }
            if let Some(w) = op_writes(ins.operation()) {
                a.extend(w);
            }
        }
        (a, bad)
    };
    loop {
        let mut changed = false;
        for b in 0..n {
            if !reach[b] {
                continue;
            }
            let mut acc: Option<BTreeSet<String>> = if b == entry { Some(BTreeSet::new()) } else { None };
            for e in f.edges() {
                if e.tail() == b && reach[e.head()] {
                    let (o, _) = block_out(e.head(), &inn[e.head()]);
                    acc = Some(match acc {
                        None => o,
                        Some(a) => a.intersection(&o).cloned().collect(),
                    });
                }
            }
            let new = acc.unwrap_or_default();
            if new != inn[b] {
                inn[b] = new;
                changed = true;
            }
        }
        if !changed {
            break;
        }
    }
    for b in 0..n {
        if !reach[b] {
            continue;
        }
        let (out, bad) = block_out(b, &inn[b]);
        if bad {
            return true;
        }
        for e in f.edges() {
            if e.head() == b {
                if let Some(c) = e.condition() {
                    let mut s = BTreeSet::new();
                    expr_scalars(c, &mut s);
                    if !s.is_subset(&out) {
                        return true;
                    }
                }
            }
        }
    }
    false
}

fn check(acc: &mut Acc, spec: &ProgSpec, alpha: &Alphabet) {
    let f = spec.build(alpha, 0x1000);
    let case = || json!({"spec": spec.to_json(alpha)});
    acc.count("evaluations", 1);
    acc.count("programs", 1);
    let must_complete = !reads_before_assignment(&f, spec.entry);
    if must_complete {
        acc.count("programs_passing_definite_assignment", 1);
    }
    let has_unreachable = {
        let mut reach = vec![false; spec.n()];
        let mut st = vec![spec.entry];
        while let Some(b) = st.pop() {
            if std::mem::replace(&mut reach[b], true) {
                continue;
            }
            for e in f.edges() {
                if e.head() == b {
                    st.push(e.tail());
                }
            }
        }
        reach.iter().any(|r| !*r)
    };
    let consts: BTreeMap<FL, Constants> = match guarded(|| constants(&f)) {
        Ok(Ok(m)) => m.into_iter().map(|(k, v)| (k.function_location().clone(), v)).collect(),
        Ok(Err(e)) => {
            if must_complete {
                acc.violation(format!("C13|completion|error|{}", if has_unreachable { "has-unreachable-block" } else { "all-reachable" }), format!("constants() failed: {}", e), case());
            }
            return;
        }
        Err(pn) => {
            if must_complete {
                acc.violation(
                    format!("C13|completion|panic:{}|{}", panic_class(&pn), if has_unreachable { "has-unreachable-block" } else { "all-reachable" }),
                    format!("constants() panicked: {}", pn),
                    case(),
                );
            }
            return;
        }
    };
    let probes = probe_exprs();
    let mut reported = 0u64;
    // An indirect branch may land inside the same function (jump tables): the analysis works on the CFG, whose
    // edges after a branch instruction are its possible targets. `cont` explores those executions as well: the
    // branch instruction changes no scalar and control continues along the CFG.
    let has_branch = f.blocks().iter().any(|b| b.instructions().iter().any(|i| matches!(i.operation(), il::Operation::Branch { .. })));
    let fx = {
        let mut g = f.clone();
        for b in g.blocks_mut() {
            for i in b.instructions_mut() {
                if matches!(i.operation(), il::Operation::Branch { .. }) {
                    *i.operation_mut() = il::Operation::Nop { placeholder: None };
                }
            }
        }
        g
    };
    for init in c12::inits() {
        for (havoc, cont) in [(false, false), (true, false), (false, true), (true, true)] {
            if cont && !has_branch {
                continue;
            }
            let fe = if cont { &fx } else { &f };
            let mut st = init.clone();
            let mut loc = match Loc::entry(&f) {
                Ok(l) => l,
                Err(_) => return,
            };
            let mut assigned: BTreeSet<String> = BTreeSet::new();
            let mut seen: HashSet<(Loc, RState, BTreeSet<String>)> = HashSet::new();
            loop {
                if !seen.insert((loc.clone(), st.clone(), assigned.clone())) {
                    break;
                }
                acc.count("states", 1);
                let here = loc.to_falcon(&f).unwrap();
                match consts.get(&here) {
                    None => {
                        acc.violation("C13|location-missing|-", format!("no constants for executed location {:?}", here), case());
                    }
                    Some(k) => {
                        for name in ["x", "y"] {
                            if let Some(c) = k.scalar(&il::scalar(name, 8)) {
                                reported += 1;
                                if assigned.contains(name) {
                                    let actual = st.get(name).cloned();
                                    if actual != Some(refil::const_val(c)) {
                                        let op = loc.instruction(&f).map(|i| format!("{}", i.operation())).unwrap_or_else(|| format!("{:?}", loc));
                                        acc.violation(
                                            format!("C13|contradicted-constant|{}|havoc={}", if matches!(loc, Loc::Edge { .. }) { "at-edge" } else { "at-instruction" }, havoc),
                                            format!("before {:?} (`{}`): analysis says {} = {}, execution has {:?}", here, op, name, c, actual),
                                            json!({"spec": spec.to_json(alpha), "x": init.get("x").map(|v| v.low_u128() as u64), "y": init.get("y").map(|v| v.low_u128() as u64), "havoc": havoc}),
                                        );
                                    }
                                }
                            }
                        }
                        for e in &probes {
                            if let Ok(Some(v)) = guarded(|| k.eval(e)) {
                                let mut names = BTreeSet::new();
                                expr_scalars(e, &mut names);
                                if names.is_subset(&assigned) {
                                    let actual = refil::eval(e, &st).ok();
                                    if actual != Some(refil::const_val(&v)) {
                                        acc.violation(
                                            format!("C13|contradicted-eval|havoc={}", havoc),
                                            format!("before {:?}: eval({}) = {}, execution has {:?}", here, e, v, actual),
                                            json!({"spec": spec.to_json(alpha), "havoc": havoc}),
                                        );
                                    }
                                }
                            }
                        }
                    }
                }
                let op = loc.instruction(&f).map(|i| i.operation().clone());
                let step = refil::step(fe, &loc, &mut st, IntrinsicMode::Identity);
                acc.count("transitions", 1);
                if matches!(step, Step::Fault(_)) {
                    break;
                }
                if let Some(op) = &op {
                    if let Some(ws) = op_writes(op) {
                        assigned.extend(ws.iter().cloned());
                        if havoc && op.is_intrinsic() {
                            for w in ws {
                                st.set(&w, Val::new(2, 8));
                            }
                        }
                    } else if havoc {
                        // undeclared intrinsic: anything may have changed
                        st.set("x", Val::new(2, 8));
                        st.set("y", Val::new(2, 8));
                    }
                }
                match step {
                    Step::Next(l, _) => loc = l,
                    _ => break,
                }
            }
        }
    }
    if reported > 0 {
        acc.count("nontrivial", 1);
    }
    acc.count("constants_reported_on_paths", reported);
    acc.count("traces", 18);
    acc.outcome(&format!("{:?}", consts.iter().map(|(k, v)| (k.clone(), v.scalar(&il::scalar("x", 8)).cloned(), v.scalar(&il::scalar("y", 8)).cloned())).collect::<Vec<_>>()));
}

fn run(ctx: &Ctx) -> Acc {
    let mut acc = Acc::new();
    let alpha = alphabet();
    for (ci, cfg) in c12::gen_cfgs(ctx.tier.thorough(), alpha.ops.len()).iter().enumerate() {
        gen::for_each(cfg, |n, spec| {
            if ci == 1 && spec.n() < 3 {
                return true;
            }
            if !ctx.mine(n) {
                return true;
            }
            ctx.trace(|| format!("prog\t{}", json!({"spec": spec.to_json(&alpha)})));
            check(&mut acc, spec, &alpha);
            true
        });
    }
    if ctx.shard == 0 {
        let spec = ProgSpec { entry: 0, exit: None, succ: vec![Succ::Two(1, 0, 0), Succ::None], blocks: vec![vec![1, 2], vec![3]] };
        acc.sample(json!({"spec": spec.to_json(&alpha)}));
    }
    acc
}

fn replay(case: &Value) -> Acc {
    let mut acc = Acc::new();
    check(&mut acc, &ProgSpec::from_json(&case["spec"]), &alphabet());
    acc
}
