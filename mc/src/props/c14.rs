//! C14 — dead-code elimination preserves observable behaviour.
use crate::gen::{self, Alphabet, ProgSpec, Succ};
use crate::props::c12;
use crate::refil::{self, Effect, IntrinsicMode, Loc, RState, Step};
use crate::report::{Acc, Describe};
use crate::util::{guarded, panic_class};
use crate::{Ctx, Prop};
use falcon::analysis;
use falcon::il::{self, Expression as E};
use serde_json::{json, Value};
use std::collections::HashSet;

pub fn prop() -> Prop {
    Prop {
        id: "C14",
        describe,
        run,
        replay,
        shards: |_| 16,
        timeout_s: |t| if t.thorough() { 3400 } else { 300 },
        mem_limit: 4 << 30,
    }
}

fn describe() -> Describe {
    Describe {
        id: "C14",
        level: "model_checking",
        rule: "every IL function on <=2 blocks (thorough: 3) x every filling with <=3 (3-block: 2) instructions from the C12 alphabet \
               plus an indirect branch, guards on x, every entry; dead_code_elimination(f) must have identical blocks/edges/\
               instruction indices with every changed operation a Nop; then input and output are explored in lock-step from 9 \
               initial valuations (loops closed by product-state dedup): same location at every step, same stores (address, value) \
               in order, equal scalar state at every indirect branch and intrinsic and at the end of every block without successors. \
               Input runs that fault are pruned.",
        assumptions: vec![
            "intrinsics are observation points; scalars an intrinsic declares as written receive the same value on both sides afterwards".into(),
            "reference IL semantics written in the harness (refil)".into(),
        ],
        engine: "program enumerator + lock-step product explorer of input and DCE output (16 processes)",
    }
}

fn alphabet() -> Alphabet {
    let mut a = c12::alphabet();
    a.ops.push(il::Operation::branch(E::zext(64, E::scalar(il::scalar("y", 8))).unwrap()));
    a
}

fn structure_diff(f: &il::Function, g: &il::Function) -> Option<(String, String)> {
    let fb: Vec<usize> = f.blocks().iter().map(|b| b.index()).collect();
    let gb: Vec<usize> = g.blocks().iter().map(|b| b.index()).collect();
    if fb != gb {
        return Some(("blocks-changed".into(), format!("{:?} vs {:?}", fb, gb)));
    }
    let fe: Vec<String> = f.edges().iter().map(|e| format!("{}", e)).collect();
    let ge: Vec<String> = g.edges().iter().map(|e| format!("{}", e)).collect();
    if fe != ge {
        return Some(("edges-changed".into(), format!("{:?} vs {:?}", fe, ge)));
    }
    if f.control_flow_graph().entry() != g.control_flow_graph().entry() {
        return Some(("entry-changed".into(), String::new()));
    }
    for b in f.blocks() {
        let gbk = g.block(b.index()).unwrap();
        let fi: Vec<usize> = b.instructions().iter().map(|i| i.index()).collect();
        let gi: Vec<usize> = gbk.instructions().iter().map(|i| i.index()).collect();
        if fi != gi {
            return Some(("instruction-positions-changed".into(), format!("block {}: {:?} vs {:?}", b.index(), fi, gi)));
        }
        for (x, y) in b.instructions().iter().zip(gbk.instructions()) {
            if x.operation() != y.operation() && !y.operation().is_nop() {
                return Some(("operation-rewritten".into(), format!("{} became {}", x, y)));
            }
        }
    }
    None
}

fn removed_kind(f: &il::Function, g: &il::Function) -> Vec<&'static str> {
    let mut v = Vec::new();
    for b in f.blocks() {
        for (x, y) in b.instructions().iter().zip(g.block(b.index()).unwrap().instructions()) {
            if x.operation() != y.operation() {
                v.push(match x.operation() {
                    il::Operation::Assign { .. } => "assign",
                    il::Operation::Load { .. } => "load",
                    il::Operation::Store { .. } => "store",
                    il::Operation::Branch { .. } => "branch",
                    il::Operation::Intrinsic { intrinsic } => {
                        if intrinsic.written_expressions().is_some() {
                            "intrinsic-declared"
                        } else {
                            "intrinsic-undeclared"
                        }
                    }
                    il::Operation::Nop { .. } => "nop",
                });
            }
        }
    }
    v.sort();
    v.dedup();
    v
}

fn check(acc: &mut Acc, spec: &ProgSpec, alpha: &Alphabet) {
    let f = spec.build(alpha, 0x1000);
    let case = || json!({"spec": spec.to_json(alpha)});
    acc.count("evaluations", 1);
    acc.count("programs", 1);
    let unreachable_terminal = {
        // is some block without successors unreachable from the entry?
        let mut reach = vec![false; spec.n()];
        let mut st = vec![spec.entry];
        while let Some(b) = st.pop() {
            if std::mem::replace(&mut reach[b], true) {
                continue;
            }
            for e in f.edges() {
                if e.head() == b {
                    st.push(e.tail());
                }
            }
        }
        (0..spec.n()).any(|b| !reach[b])
    };
    let g = match guarded(|| analysis::dead_code_elimination(&f)) {
        Ok(Ok(g)) => g,
        Ok(Err(e)) => {
            acc.violation(format!("C14|error|{}", if unreachable_terminal { "has-unreachable-block" } else { "all-reachable" }), format!("error: {}", e), case());
            return;
        }
        Err(pn) => {
            acc.violation(
                format!("C14|panic:{}|{}", panic_class(&pn), if unreachable_terminal { "has-unreachable-block" } else { "all-reachable" }),
                format!("panicked: {}", pn),
                case(),
            );
            return;
        }
    };
    if let Some((k, what)) = structure_diff(&f, &g) {
        acc.violation(format!("C14|structure|{}", k), what, case());
        return;
    }
    let removed = removed_kind(&f, &g);
    if !removed.is_empty() {
        acc.count("nontrivial", 1);
        acc.count("programs_with_eliminated_code", 1);
    }
    for init in c12::inits() {
        let (mut s1, mut s2) = (init.clone(), init.clone());
        let mut loc = match Loc::entry(&f) {
            Ok(l) => l,
            Err(_) => return,
        };
        let mut seen: HashSet<(Loc, RState, RState)> = HashSet::new();
        let ctx_key = |obs: &str| format!("C14|behaviour|{}|removed={}", obs, removed.join("+"));
        loop {
            if !seen.insert((loc.clone(), s1.clone(), s2.clone())) {
                break;
            }
            acc.count("states", 1);
            // observation points: state presented to intrinsics and indirect branches
            if let Some(ins) = loc.instruction(&f) {
                let is_obs = matches!(ins.operation(), il::Operation::Intrinsic { .. } | il::Operation::Branch { .. });
                if is_obs {
                    let out_op = loc.instruction(&g).unwrap().operation();
                    if out_op.is_nop() {
                        acc.violation(
                            ctx_key(if ins.operation().is_branch() { "branch-eliminated" } else { "intrinsic-eliminated" }),
                            format!("`{}` was replaced by a nop", ins.operation()),
                            case(),
                        );
                        break;
                    }
                    if s1.scalars != s2.scalars {
                        // which scalars differ, and does the observer itself overwrite them?
                        let writes = c12::op_writes(ins.operation()).unwrap_or_default();
                        let differing: Vec<String> = s1.scalars.iter().filter(|(k, v)| s2.scalars.get(*k) != Some(*v)).map(|(k, _)| k.0.clone()).collect();
                        let only_overwritten = differing.iter().all(|d| writes.contains(d));
                        acc.violation(
                            ctx_key(&format!(
                                "{}-sees-different-state{}",
                                if ins.operation().is_branch() { "branch" } else { "intrinsic" },
                                if only_overwritten { "(only scalars it declares to overwrite)" } else { "" }
                            )),
                            format!("at `{}`: input state {:?}, output state {:?}", ins.operation(), s1.scalars, s2.scalars),
                            case(),
                        );
                        break;
                    }
                }
            }
            let st1 = refil::step(&f, &loc, &mut s1, IntrinsicMode::Identity);
            if let Step::Fault(_) = st1 {
                acc.count("input_runs_pruned_by_fault", 1);
                break;
            }
            let st2 = refil::step(&g, &loc, &mut s2, IntrinsicMode::Identity);
            acc.count("transitions", 1);
            // declared writes of an intrinsic produce the same values on both sides
            if let Some(ins) = loc.instruction(&f) {
                if let il::Operation::Intrinsic { .. } = ins.operation() {
                    if let Some(ws) = c12::op_writes(ins.operation()) {
                        for w in ws {
                            if let Some(v) = s1.get(&w).cloned() {
                                s2.set(&w, v);
                            }
                        }
                    }
                }
            }
            // stores
            let eff = |s: &Step| match s {
                Step::Next(_, e) | Step::Halt(e) => Some(e.clone()),
                _ => None,
            };
            let (e1, e2) = (eff(&st1), eff(&st2));
            let store1 = matches!(e1, Some(Effect::Store { .. }));
            let store2 = matches!(e2, Some(Effect::Store { .. }));
            if (store1 || store2) && e1 != e2 {
                acc.violation(ctx_key("store-differs"), format!("input {:?} output {:?}", e1, e2), case());
                break;
            }
            match (st1, st2) {
                (Step::Next(l1, _), Step::Next(l2, _)) => {
                    if l1 != l2 {
                        acc.violation(ctx_key("path-differs"), format!("input goes to {:?}, output to {:?}", l1, l2), case());
                        break;
                    }
                    loc = l1;
                }
                (Step::Branch(t1), Step::Branch(t2)) => {
                    if t1 != t2 {
                        acc.violation(ctx_key("branch-target-differs"), format!("{:#x} vs {:#x}", t1, t2), case());
                    }
                    break;
                }
                (Step::Halt(_), Step::Halt(_)) => {
                    if s1.scalars != s2.scalars {
                        acc.violation(ctx_key("final-state-differs"), format!("input {:?} output {:?}", s1.scalars, s2.scalars), case());
                    }
                    break;
                }
                (a, b) => {
                    acc.violation(ctx_key("step-kind-differs"), format!("input {:?} output {:?}", a, b), case());
                    break;
                }
            }
        }
    }
    acc.count("traces", 9);
    acc.outcome(&format!("{}", g.control_flow_graph()));
}

fn run(ctx: &Ctx) -> Acc {
    let mut acc = Acc::new();
    let alpha = alphabet();
    for (ci, cfg) in c12::gen_cfgs(ctx.tier.thorough(), alpha.ops.len()).iter().enumerate() {
        gen::for_each(cfg, |n, spec| {
            if ci >= 1 && spec.n() < 3 {
                return true;
            }
            if !ctx.mine(n) {
                return true;
            }
            ctx.trace(|| format!("prog\t{}", json!({"spec": spec.to_json(&alpha)})));
            check(&mut acc, spec, &alpha);
            true
        });
    }
    if ctx.shard == 0 {
        let spec = ProgSpec { entry: 0, exit: None, succ: vec![Succ::One(1), Succ::None], blocks: vec![vec![0, 4], vec![0, 6]] };
        acc.sample(json!({"spec": spec.to_json(&alpha)}));
    }
    acc
}

fn replay(case: &Value) -> Acc {
    let mut acc = Acc::new();
    check(&mut acc, &ProgSpec::from_json(&case["spec"]), &alphabet());
    acc
}
