pub mod c01;
pub mod c02;
pub mod c03;
pub mod c04;
pub mod c05;
pub mod c06;
pub mod c07;
pub mod c08;
pub mod c09;
pub mod c10;
pub mod c11;
pub mod c12;
pub mod c13;
pub mod c14;
pub mod c15;
pub mod c16;
pub mod c17;
pub mod c18;
pub mod c19;
pub mod c20;

pub fn all() -> Vec<crate::Prop> {
    vec![c01::prop(), c02::prop(), c03::prop(), c04::prop(), c05::prop(), c06::prop(), c07::prop(), c08::prop(), c09::prop(), c10::prop(), c11::prop(), c12::prop(), c13::prop(), c14::prop(), c15::prop(), c16::prop(), c17::prop(), c18::prop(), c19::prop(), c20::prop()]
}
