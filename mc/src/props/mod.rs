pub mod c04;

pub fn all() -> Vec<crate::Prop> {
    vec![c04::prop()]
}
