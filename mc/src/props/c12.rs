//! C12 — reaching definitions and def-use / use-def chains cover every execution.
use crate::bv::Val;
use crate::gen::{self, Alphabet, GenCfg, ProgSpec, Succ};
use crate::refil::{self, End, IntrinsicMode, Loc, RState, Step};
use crate::report::{Acc, Describe};
use crate::util::{guarded, panic_class};
use crate::{Ctx, Prop};
use falcon::analysis;
use falcon::il::{self, Expression as E, FunctionLocation as FL};
use serde_json::{json, Value};
use std::collections::{BTreeMap, BTreeSet, HashSet};

pub fn prop() -> Prop {
    Prop {
        id: "C12",
        describe,
        run,
        replay,
        shards: |_| 16,
        timeout_s: |t| if t.thorough() { 3400 } else { 300 },
        mem_limit: 4 << 30,
    }
}

fn describe() -> Describe {
    Describe {
        id: "C12",
        level: "model_checking",
        rule: "every IL function on <=2 blocks (thorough: 3) x every filling with <=3 (3-block: 2) instructions from {x=1, x=y, \
               x=(x+1)&3, x=(x+y)&3, y=x, x=[c], [c]=x, nop, intrinsic(writes x, reads y), intrinsic(undeclared)} x guards on x x \
               every entry; product of each concrete execution (9 initial valuations, loops closed by state dedup) with a \
               last-writer monitor: after every location the last writer of each scalar must be in reaching_definitions, before \
               every instruction/guarded edge the last writer of each scalar it reads must be in use_def; statically every reported \
               assignment/load must reach along a kill-free path and def_use must be the exact inverse of use_def.",
        assumptions: vec![
            "reaching-definition entries that are not assignments or loads are ignored (outside the statement)".into(),
            "intrinsics are observation points with identity effect; declared writes update the last-writer monitor".into(),
            "read sets are computed by the harness' own expression walker".into(),
        ],
        engine: "program enumerator + product explorer with last-writer monitor (16 processes)",
    }
}

pub fn alphabet() -> Alphabet {
    let x = || il::scalar("x", 8);
    let y = || il::scalar("y", 8);
    let ex = || E::scalar(x());
    let ey = || E::scalar(y());
    let c = |v: u64| il::expr_const(v, 8);
    let m3 = |e: E| E::and(e, c(3)).unwrap();
    let ops = vec![
        il::Operation::assign(x(), c(1)),
        il::Operation::assign(x(), ey()),
        il::Operation::assign(x(), m3(E::add(ex(), c(1)).unwrap())),
        il::Operation::assign(x(), m3(E::add(ex(), ey()).unwrap())),
        il::Operation::assign(y(), ex()),
        il::Operation::load(x(), il::expr_const(0x10, 64)),
        il::Operation::store(il::expr_const(0x10, 64), ex()),
        il::Operation::nop(),
        il::Operation::intrinsic(il::Intrinsic::new("rdx", "rdx", vec![], Some(vec![ex()]), Some(vec![ey()]), vec![0x90])),
        il::Operation::intrinsic(il::Intrinsic::new("unk", "unk", vec![], None, None, vec![0x90])),
        // an intrinsic that declares TWO written scalars (a later write to one of them must not hide it as the last
        // writer of the other), and a load whose address mentions its own destination (pointer chasing)
        il::Operation::intrinsic(il::Intrinsic::new("rdxy", "rdxy", vec![], Some(vec![ex(), ey()]), Some(vec![]), vec![0x91])),
        il::Operation::load(x(), E::add(il::expr_const(0x10, 64), E::zext(64, ex()).unwrap()).unwrap()),
        // a placeholder no-op: the assignment it wraps never executes, so it defines, kills and uses nothing
        il::Operation::placeholder(il::Operation::assign(x(), c(2))),
    ];
    let guards = vec![(E::cmpeq(ex(), c(0)).unwrap(), E::cmpneq(ex(), c(0)).unwrap())];
    Alphabet { ops, guards, guards3: vec![] }
}

pub fn expr_scalars(e: &E, out: &mut BTreeSet<String>) {
    match e {
        E::Scalar(s) => {
            out.insert(s.name().to_string());
        }
        E::Constant(_) => {}
        E::Add(a, b) | E::Sub(a, b) | E::Mul(a, b) | E::Divu(a, b) | E::Modu(a, b) | E::Divs(a, b) | E::Mods(a, b) | E::And(a, b) | E::Or(a, b) | E::Xor(a, b) | E::Shl(a, b) | E::Shr(a, b) | E::AShr(a, b) | E::Cmpeq(a, b) | E::Cmpneq(a, b) | E::Cmplts(a, b) | E::Cmpltu(a, b) => {
            expr_scalars(a, out);
            expr_scalars(b, out);
        }
        E::Zext(_, a) | E::Sext(_, a) | E::Trun(_, a) => expr_scalars(a, out),
        E::Ite(a, b, c) => {
            expr_scalars(a, out);
            expr_scalars(b, out);
            expr_scalars(c, out);
        }
    }
}

/// scalars read / written by an operation (None: an intrinsic that does not declare them)
pub fn op_reads(op: &il::Operation) -> Option<BTreeSet<String>> {
    let mut s = BTreeSet::new();
    match op {
        il::Operation::Assign { src, .. } => expr_scalars(src, &mut s),
        il::Operation::Store { index, src } => {
            expr_scalars(index, &mut s);
            expr_scalars(src, &mut s);
        }
        il::Operation::Load { index, .. } => expr_scalars(index, &mut s),
        il::Operation::Branch { target } => expr_scalars(target, &mut s),
        il::Operation::Intrinsic { intrinsic } => {
            for e in intrinsic.read_expressions()? {
                expr_scalars(e, &mut s);
            }
        }
        il::Operation::Nop { .. } => {}
    }
    Some(s)
}
pub fn op_writes(op: &il::Operation) -> Option<BTreeSet<String>> {
    let mut s = BTreeSet::new();
    match op {
        il::Operation::Assign { dst, .. } | il::Operation::Load { dst, .. } => {
            s.insert(dst.name().to_string());
        }
        il::Operation::Intrinsic { intrinsic } => {
            for e in intrinsic.written_expressions()? {
                expr_scalars(e, &mut s);
            }
        }
        _ => {}
    }
    Some(s)
}

pub fn inits() -> Vec<RState> {
    let mut v = Vec::new();
    for x in [0u128, 1, 2] {
        for y in [0u128, 1, 2] {
            let mut r = RState::new(End::Little);
            r.set("x", Val::new(x, 8));
            r.set("y", Val::new(y, 8));
            r.mem.insert(0x10, 2);
            r.mem.insert(0x11, 3);
            r.mem.insert(0x12, 0);
            r.mem.insert(0x13, 1);
            v.push(r);
        }
    }
    v
}

type LocMap = BTreeMap<FL, BTreeSet<FL>>;

fn to_map(m: std::collections::HashMap<il::ProgramLocation, analysis::LocationSet>) -> LocMap {
    m.into_iter()
        .map(|(k, v)| (k.function_location().clone(), v.locations().iter().map(|l| l.function_location().clone()).collect()))
        .collect()
}

fn op_at<'a>(f: &'a il::Function, l: &FL) -> Option<&'a il::Operation> {
    match l {
        FL::Instruction(b, i) => f.block(*b).ok()?.instruction(*i).map(|x| x.operation()),
        _ => None,
    }
}

/// harness location graph (successors)
fn loc_graph(f: &il::Function) -> LocMap {
    let mut fwd: LocMap = BTreeMap::new();
    let head = |b: usize| -> FL {
        match f.block(b).unwrap().instructions().first() {
            Some(i) => FL::Instruction(b, i.index()),
            None => FL::EmptyBlock(b),
        }
    };
    for blk in f.blocks() {
        let b = blk.index();
        let outs: BTreeSet<FL> = f.edges().iter().filter(|e| e.head() == b).map(|e| FL::Edge(e.head(), e.tail())).collect();
        let ins = blk.instructions();
        if ins.is_empty() {
            fwd.insert(FL::EmptyBlock(b), outs.clone());
        }
        for (k, i) in ins.iter().enumerate() {
            let l = FL::Instruction(b, i.index());
            if k + 1 < ins.len() {
                fwd.insert(l, [FL::Instruction(b, ins[k + 1].index())].into_iter().collect());
            } else {
                fwd.insert(l, outs.clone());
            }
        }
    }
    for e in f.edges() {
        fwd.insert(FL::Edge(e.head(), e.tail()), [head(e.tail())].into_iter().collect());
    }
    fwd
}

fn is_def_of(f: &il::Function, l: &FL, scalar: &str) -> bool {
    matches!(op_at(f, l), Some(il::Operation::Assign { dst, .. } | il::Operation::Load { dst, .. }) if dst.name() == scalar)
}

pub fn check(acc: &mut Acc, spec: &ProgSpec, alpha: &Alphabet) {
    let f = spec.build(alpha, 0x1000);
    let case = || json!({"spec": spec.to_json(alpha)});
    acc.count("evaluations", 1);
    acc.count("programs", 1);
    let rd = match guarded(|| analysis::reaching_definitions(&f)) {
        Ok(Ok(m)) => to_map(m),
        Ok(Err(e)) => {
            acc.violation("C12|reaching_definitions|error|-", format!("error: {}", e), case());
            return;
        }
        Err(pn) => {
            acc.violation(format!("C12|reaching_definitions|panic:{}|-", panic_class(&pn)), format!("panicked: {}", pn), case());
            return;
        }
    };
    let ud = match guarded(|| analysis::use_def(&f)) {
        Ok(Ok(m)) => Some(to_map(m)),
        Ok(Err(e)) => {
            acc.violation("C12|use_def|error|-", format!("error: {}", e), case());
            None
        }
        Err(pn) => {
            acc.violation(format!("C12|use_def|panic:{}|-", panic_class(&pn)), format!("panicked: {}", pn), case());
            None
        }
    };
    let du = match guarded(|| analysis::def_use(&f)) {
        Ok(Ok(m)) => Some(to_map(m)),
        Ok(Err(e)) => {
            acc.violation("C12|def_use|error|-", format!("error: {}", e), case());
            None
        }
        Err(pn) => {
            acc.violation(format!("C12|def_use|panic:{}|-", panic_class(&pn)), format!("panicked: {}", pn), case());
            None
        }
    };
    // ---- static: every reported assignment/load reaches along a kill-free path
    let g = loc_graph(&f);
    for (l, defs) in &rd {
        for d in defs {
            let scalar = match op_at(&f, d) {
                Some(il::Operation::Assign { dst, .. }) | Some(il::Operation::Load { dst, .. }) => dst.name().to_string(),
                _ => continue, // not an assignment or load: outside the statement
            };
            // search from d: may pass through nodes that do not assign/load `scalar`
            let mut ok = d == l;
            let mut seen: BTreeSet<FL> = BTreeSet::new();
            let mut stack: Vec<FL> = g.get(d).map(|s| s.iter().cloned().collect()).unwrap_or_default();
            while let Some(n) = stack.pop() {
                if ok {
                    break;
                }
                if !seen.insert(n.clone()) {
                    continue;
                }
                if is_def_of(&f, &n, &scalar) {
                    continue; // killed here (n's out-state does not contain d)
                }
                if n == *l {
                    ok = true;
                    break;
                }
                stack.extend(g[&n].iter().cloned());
            }
            if !ok {
                acc.violation(
                    "C12|reaching_definitions|unreachable-definition-reported|-",
                    format!("reaching_definitions[{:?}] contains {:?} ({}), which cannot reach it without an intervening write", l, d, scalar),
                    case(),
                );
            }
        }
    }
    // ---- static: def_use is the exact inverse of use_def
    if let (Some(ud), Some(du)) = (&ud, &du) {
        let mut a: BTreeSet<(FL, FL)> = BTreeSet::new();
        for (u, ds) in ud {
            for d in ds {
                a.insert((d.clone(), u.clone()));
            }
        }
        let mut b: BTreeSet<(FL, FL)> = BTreeSet::new();
        for (d, us) in du {
            for u in us {
                b.insert((d.clone(), u.clone()));
            }
        }
        if a != b {
            let only_ud: Vec<_> = a.difference(&b).take(3).collect();
            let only_du: Vec<_> = b.difference(&a).take(3).collect();
            acc.violation(
                "C12|def_use|not-inverse-of-use_def|-",
                format!("(def,use) pairs only in use_def: {:?}; only in def_use: {:?}", only_ud, only_du),
                case(),
            );
        }
    }
    // ---- dynamic: product with the last-writer monitor
    let mut any_steps = false;
    for init in inits() {
        let mut st = init.clone();
        let mut loc = match Loc::entry(&f) {
            Ok(l) => l,
            Err(_) => return,
        };
        let mut last: BTreeMap<String, FL> = BTreeMap::new();
        let mut seen: HashSet<(Loc, RState, BTreeMap<String, FL>)> = HashSet::new();
        loop {
            if !seen.insert((loc.clone(), st.clone(), last.clone())) {
                break;
            }
            acc.count("states", 1);
            let here = loc.to_falcon(&f).unwrap();
            // before: use_def of what this location reads
            let reads: Option<BTreeSet<String>> = match &loc {
                Loc::Instr { .. } => op_reads(loc.instruction(&f).unwrap().operation()),
                Loc::Edge { head, tail } => {
                    let mut s = BTreeSet::new();
                    if let Ok(e) = f.edge(*head, *tail) {
                        if let Some(c) = e.condition() {
                            expr_scalars(c, &mut s);
                        }
                    }
                    Some(s)
                }
                Loc::Empty { .. } => Some(BTreeSet::new()),
            };
            if let (Some(ud), Some(reads)) = (&ud, &reads) {
                for s in reads {
                    if let Some(w) = last.get(s) {
                        let ok = ud.get(&here).map(|d| d.contains(w)).unwrap_or(false);
                        if !ok {
                            let nreads = reads.len();
                            let selfref = op_writes_at(&f, &here).map(|ws| ws.contains(s)).unwrap_or(false);
                            acc.violation(
                                format!(
                                    "C12|use_def|missing-last-writer|{},reads={}{}",
                                    match loc {
                                        Loc::Edge { .. } => "edge",
                                        _ => "instruction",
                                    },
                                    if nreads > 1 { ">1" } else { "1" },
                                    if selfref { ",also-writes-it" } else { "" }
                                ),
                                format!("use_def[{:?}] = {:?} lacks {:?}, the last writer of {} on an execution from x={:?} y={:?}", here, ud.get(&here), w, s, init.get("x"), init.get("y")),
                                case(),
                            );
                        }
                    }
                }
            }
            // step
            let step = refil::step(&f, &loc, &mut st, IntrinsicMode::Identity);
            acc.count("transitions", 1);
            any_steps = true;
            // monitor update
            if let Loc::Instr { .. } = loc {
                if let Some(ws) = op_writes(loc.instruction(&f).unwrap().operation()) {
                    if !matches!(step, Step::Fault(_)) {
                        for w in ws {
                            last.insert(w, here.clone());
                        }
                    }
                }
            }
            // after: reaching definitions of this location contain every last writer
            if !matches!(step, Step::Fault(_)) {
                match rd.get(&here) {
                    None => acc.violation("C12|reaching_definitions|location-missing|-", format!("no entry for executed location {:?}", here), case()),
                    Some(set) => {
                        for (s, w) in &last {
                            if !set.contains(w) {
                                let wk = match op_at(&f, w) {
                                    Some(il::Operation::Intrinsic { .. }) => "intrinsic",
                                    Some(il::Operation::Load { .. }) => "load",
                                    _ => "assign",
                                };
                                acc.violation(
                                    format!("C12|reaching_definitions|missing-last-writer|writer={}", wk),
                                    format!("after {:?}: last writer of {} is {:?}, not in {:?}", here, s, w, set),
                                    case(),
                                );
                            }
                        }
                    }
                }
            }
            match step {
                Step::Next(l, _) => loc = l,
                _ => break,
            }
        }
    }
    if any_steps {
        acc.count("nontrivial", 1);
    }
    acc.count("traces", 9);
    acc.outcome(&format!("{:?}{:?}", rd, ud));
}

fn op_writes_at(f: &il::Function, l: &FL) -> Option<BTreeSet<String>> {
    op_at(f, l).and_then(op_writes)
}

pub fn gen_cfgs(thorough: bool, n_ops: usize) -> Vec<GenCfg> {
    let mut v = vec![GenCfg {
        max_blocks: 2,
        max_instrs: 3,
        max_per_block: 3,
        n_ops,
        n_guards: 1,
        all_entries: true,
        cond_edges: false,
        with_exit: false,
        three_way: false,
    }];
    v.push(GenCfg {
        max_blocks: 3,
        max_instrs: if thorough { 3 } else { 1 },
        max_per_block: 2,
        n_ops,
        n_guards: 1,
        all_entries: thorough,
        cond_edges: false,
        with_exit: false,
        three_way: false,
    });
    if !thorough {
        // quick: three blocks with two instructions, restricted to the five plain assignments (thorough covers this
        // shape with the whole alphabet)
        v.push(GenCfg { max_blocks: 3, max_instrs: 2, max_per_block: 2, n_ops: 5.min(n_ops), n_guards: 1, all_entries: false, cond_edges: false, with_exit: false, three_way: false });
    }
    v
}

/// C12's own alphabet: the shared one plus an indirect branch whose target reads a scalar (a use like any other)
fn alphabet_c12() -> Alphabet {
    let mut a = alphabet();
    a.ops.push(il::Operation::branch(E::zext(64, E::scalar(il::scalar("y", 8))).unwrap()));
    a
}

fn run(ctx: &Ctx) -> Acc {
    let mut acc = Acc::new();
    let alpha = alphabet_c12();
    for (ci, cfg) in gen_cfgs(ctx.tier.thorough(), alpha.ops.len()).iter().enumerate() {
        gen::for_each(cfg, |n, spec| {
            if ci >= 1 && spec.n() < 3 {
                return true;
            }
            if !ctx.mine(n) {
                return true;
            }
            ctx.trace(|| format!("prog\t{}", json!({"spec": spec.to_json(&alpha)})));
            check(&mut acc, spec, &alpha);
            true
        });
    }
    if ctx.shard == 0 {
        let spec = ProgSpec { entry: 0, exit: None, succ: vec![Succ::Two(1, 0, 0), Succ::None], blocks: vec![vec![3, 2], vec![4]] };
        acc.sample(json!({"spec": spec.to_json(&alpha)}));
    }
    acc
}

fn replay(case: &Value) -> Acc {
    let mut acc = Acc::new();
    check(&mut acc, &ProgSpec::from_json(&case["spec"]), &alphabet_c12());
    acc
}
