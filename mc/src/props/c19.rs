//! C19 — ELF loading maps exactly the image and rebases uniformly.
//! Contains an independent ELF writer (ELF32/ELF64, LE/BE) driven by an abstract image description.
use crate::report::{Acc, Describe};
use crate::util::{guarded, panic_class};
use crate::{Ctx, Prop};
use falcon::architecture::Endian;
use falcon::loader::{Elf, Loader};
use falcon::memory::MemoryPermissions as P;
use serde_json::{json, Value};
use std::collections::{BTreeMap, BTreeSet};

#[path = "c19_link.rs"]
mod c19_link;

pub fn prop() -> Prop {
    Prop {
        id: "C19",
        describe,
        run,
        replay,
        shards: |_| 16,
        timeout_s: |t| if t.thorough() { 3000 } else { 300 },
        mem_limit: 4 << 30,
    }
}

fn describe() -> Describe {
    Describe {
        id: "C19",
        level: "exploration",
        rule: "exhaustive lattice of abstract ELF images written by an independent ELF writer: class/data/machine in {386 LE32, \
               X86_64 LE64, MIPS BE32, MIPS LE32, PPC BE32, AARCH64 LE64, AARCH64 BE64} x 1..2 PT_LOAD segments with vaddr in \
               {0x1000,0x2000,0x2008}, filesz {0,3,0x10}, memsz {filesz, filesz+5}, flags {R,RW,RX,RWX}, a non-load header \
               interleaved x symbol sets (symtab and dynsym: defined function, undefined function, function with value 0, object, \
               a duplicate, a PLT relocation target) x entry {inside a segment and not a symbol, equal to a symbol} x user entries \
               x base {0, 2, 6 (smaller than the distance between symbols, so that rebased and un-rebased addresses collide), 0x10000, 0x40000000 / 0x7f0000000000}. Oracle = the abstract description: expected byte/permission/unmapped for every \
               address around every segment, architecture and endianness, the entry set; and the differential clause: everything \
               reported at base B equals the base-0 report + B (sections, function entries, symbols, program entry). \
               Linking (ElfLinker; EM_386, and EM_MIPS in both byte orders): every topology of {main, libA.so, libB.so} in {main->A; main->A,B; main->A->B; \
               main->A,B with A->B; main->B,A} x every assignment of {no relocation, R_386_RELATIVE, {R_386_GLOB_DAT, R_386_JMP_SLOT, \
               R_386_32} x every symbol defined in the link} to the relocation slots of every object (1 slot per object in quick; 2 \
               for main and libA in thorough); the objects are written to a scratch directory and linked; every relocated word \
               must hold base(definer)+value (base(self)+addend for RELATIVE) and every other byte of the linked image must be \
               the union of the objects' images at the bases the linker reports. MIPS: per object {no external GOT symbol, each external symbol} x {no R_MIPS_REL32, a local one, one naming each \
               symbol of the link}; GOT local/global entries and REL32 words are the relocated words. \
               A link that returns an error is counted, not judged.",
        assumptions: vec![
            "ELF writer in the harness (independent of goblin); dynamic symbols are published through a DT_HASH-sized .dynsym in an extra R segment which is part of the expected image".into(),
            "symbol names are unique per link (no interposition order is assumed); GOT[0] (reserved for the resolver) is not compared".into(),
        ],
        engine: "grid enumerator over abstract ELF images (16 processes)",
    }
}

#[derive(Clone, Debug)]
struct Seg {
    vaddr: u64,
    filesz: u64,
    memsz: u64,
    flags: u32, // PF_X=1 PF_W=2 PF_R=4
}
#[derive(Clone, Debug)]
struct Sym {
    name: &'static str,
    value: u64,
    func: bool,
    defined: bool,
    dynamic: bool,
}
#[derive(Clone, Debug)]
struct Image {
    machine: u16,
    is64: bool,
    big: bool,
    segs: Vec<Seg>,
    syms: Vec<Sym>,
    entry: u64,
    user: Vec<u64>,
    plt_sym: Option<usize>, // index into dynamic symbols (1-based dynsym index)
    plt_offset: u64,
}

struct W {
    b: Vec<u8>,
    big: bool,
    is64: bool,
}
impl W {
    fn u8(&mut self, v: u8) {
        self.b.push(v)
    }
    fn u16(&mut self, v: u16) {
        if self.big {
            self.b.extend_from_slice(&v.to_be_bytes())
        } else {
            self.b.extend_from_slice(&v.to_le_bytes())
        }
    }
    fn u32(&mut self, v: u32) {
        if self.big {
            self.b.extend_from_slice(&v.to_be_bytes())
        } else {
            self.b.extend_from_slice(&v.to_le_bytes())
        }
    }
    fn u64(&mut self, v: u64) {
        if self.big {
            self.b.extend_from_slice(&v.to_be_bytes())
        } else {
            self.b.extend_from_slice(&v.to_le_bytes())
        }
    }
    fn word(&mut self, v: u64) {
        if self.is64 {
            self.u64(v)
        } else {
            self.u32(v as u32)
        }
    }
    fn pad_to(&mut self, n: usize) {
        while self.b.len() < n {
            self.b.push(0)
        }
    }
}

const META_VADDR: u64 = 0x8000;

/// Returns (file bytes, expected memory image incl. the metadata segment: addr -> (byte, perm bits READ=1 WRITE=2 EXEC=4))
fn write_elf(im: &Image) -> (Vec<u8>, BTreeMap<u64, (u8, u32)>) {
    let (is64, big) = (im.is64, im.big);
    let ehsize = if is64 { 64 } else { 52 };
    let phentsize = if is64 { 56 } else { 32 };
    let shentsize = if is64 { 64 } else { 40 };
    let symsize = if is64 { 24 } else { 16 };
    // program headers: NOTE (non-load) first, then loads interleaved with a GNU_STACK, then the meta load, then DYNAMIC
    let nload = im.segs.len();
    let phnum = nload + 4;
    let phoff = ehsize;
    let mut off = phoff + phnum * phentsize;
    off = (off + 15) & !15;
    // segment data
    let mut seg_off = Vec::new();
    let mut data: Vec<Vec<u8>> = Vec::new();
    for (i, s) in im.segs.iter().enumerate() {
        seg_off.push(off);
        let d: Vec<u8> = (0..s.filesz).map(|k| (0x30 + i as u64 * 0x40 + k) as u8).collect();
        off += d.len();
        off = (off + 15) & !15;
        data.push(d);
    }
    // ---- metadata blob: dynstr, dynsym, hash, rel(a).plt, dynamic
    let dyns: Vec<&Sym> = im.syms.iter().filter(|s| s.dynamic).collect();
    let mut dynstr = vec![0u8];
    let mut dyn_name_off = Vec::new();
    for s in &dyns {
        dyn_name_off.push(dynstr.len());
        dynstr.extend_from_slice(s.name.as_bytes());
        dynstr.push(0);
    }
    let sym_bytes = |w: &mut W, name: u32, s: Option<&Sym>| {
        let (value, info, shndx) = match s {
            None => (0u64, 0u8, 0u16),
            Some(s) => (s.value, (1 << 4) | if s.func { 2 } else { 1 }, if s.defined { 1 } else { 0 }),
        };
        if w.is64 {
            w.u32(name);
            w.u8(info);
            w.u8(0);
            w.u16(shndx);
            w.u64(value);
            w.u64(0);
        } else {
            w.u32(name);
            w.u32(value as u32);
            w.u32(0);
            w.u8(info);
            w.u8(0);
            w.u16(shndx);
        }
    };
    let mut meta = W { b: Vec::new(), big, is64 };
    let dynstr_at = 0usize;
    meta.b.extend_from_slice(&dynstr);
    meta.pad_to((meta.b.len() + 7) & !7);
    let dynsym_at = meta.b.len();
    sym_bytes(&mut meta, 0, None);
    for (i, s) in dyns.iter().enumerate() {
        sym_bytes(&mut meta, dyn_name_off[i] as u32, Some(s));
    }
    let hash_at = meta.b.len();
    let nsyms = dyns.len() as u32 + 1;
    meta.u32(1); // nbucket
    meta.u32(nsyms); // nchain
    meta.u32(0);
    for _ in 0..nsyms {
        meta.u32(0);
    }
    meta.pad_to((meta.b.len() + 7) & !7);
    let rel_at = meta.b.len();
    let mut relsz = 0usize;
    if let Some(ps) = im.plt_sym {
        let ty: u64 = 7; // JMP_SLOT-like
        if is64 {
            meta.u64(im.plt_offset);
            meta.u64(((ps as u64) << 32) | ty);
            meta.u64(0);
            relsz = 24;
        } else {
            meta.u32(im.plt_offset as u32);
            meta.u32(((ps as u32) << 8) | ty as u32);
            relsz = 8;
        }
    }
    let dynamic_at = meta.b.len();
    let mut dynent = |w: &mut W, tag: u64, val: u64| {
        w.word(tag);
        w.word(val);
    };
    dynent(&mut meta, 5, META_VADDR + dynstr_at as u64); // DT_STRTAB
    dynent(&mut meta, 10, dynstr.len() as u64); // DT_STRSZ
    dynent(&mut meta, 6, META_VADDR + dynsym_at as u64); // DT_SYMTAB
    dynent(&mut meta, 11, symsize as u64); // DT_SYMENT
    dynent(&mut meta, 4, META_VADDR + hash_at as u64); // DT_HASH
    if relsz > 0 {
        dynent(&mut meta, 23, META_VADDR + rel_at as u64); // DT_JMPREL
        dynent(&mut meta, 2, relsz as u64); // DT_PLTRELSZ
        dynent(&mut meta, 20, if is64 { 7 } else { 17 }); // DT_PLTREL
    }
    dynent(&mut meta, 0, 0);
    let dynamic_sz = meta.b.len() - dynamic_at;
    let meta_off = off;
    off += meta.b.len();
    off = (off + 15) & !15;
    // ---- .symtab / .strtab (non-dynamic symbols), section headers
    let statics: Vec<&Sym> = im.syms.iter().filter(|s| !s.dynamic).collect();
    let mut strtab = vec![0u8];
    let mut st_name_off = Vec::new();
    for s in &statics {
        st_name_off.push(strtab.len());
        strtab.extend_from_slice(s.name.as_bytes());
        strtab.push(0);
    }
    let shstr: &[u8] = b"\0.symtab\0.strtab\0.shstrtab\0.text\0";
    let mut symtab = W { b: Vec::new(), big, is64 };
    sym_bytes(&mut symtab, 0, None);
    for (i, s) in statics.iter().enumerate() {
        sym_bytes(&mut symtab, st_name_off[i] as u32, Some(s));
    }
    let symtab_off = off;
    off += symtab.b.len();
    let strtab_off = off;
    off += strtab.len();
    let shstr_off = off;
    off += shstr.len();
    off = (off + 15) & !15;
    let shoff = off;
    // ---- assemble
    let mut w = W { b: Vec::new(), big, is64 };
    w.b.extend_from_slice(&[0x7f, b'E', b'L', b'F', if is64 { 2 } else { 1 }, if big { 2 } else { 1 }, 1, 0]);
    w.b.extend_from_slice(&[0; 8]);
    w.u16(2); // ET_EXEC
    w.u16(im.machine);
    w.u32(1);
    w.word(im.entry);
    w.word(phoff as u64);
    w.word(shoff as u64);
    w.u32(0);
    w.u16(ehsize as u16);
    w.u16(phentsize as u16);
    w.u16(phnum as u16);
    w.u16(shentsize as u16);
    w.u16(5);
    w.u16(3); // shstrndx
    let phdr = |w: &mut W, ty: u32, flags: u32, offset: u64, vaddr: u64, filesz: u64, memsz: u64| {
        if w.is64 {
            w.u32(ty);
            w.u32(flags);
            w.u64(offset);
            w.u64(vaddr);
            w.u64(vaddr);
            w.u64(filesz);
            w.u64(memsz);
            w.u64(8);
        } else {
            w.u32(ty);
            w.u32(offset as u32);
            w.u32(vaddr as u32);
            w.u32(vaddr as u32);
            w.u32(filesz as u32);
            w.u32(memsz as u32);
            w.u32(flags);
            w.u32(8);
        }
    };
    phdr(&mut w, 4, 4, meta_off as u64, 0x7777_0000, 4, 4); // PT_NOTE: must not be mapped
    for (i, s) in im.segs.iter().enumerate() {
        phdr(&mut w, 1, s.flags, seg_off[i] as u64, s.vaddr, s.filesz, s.memsz);
        if i == 0 {
            phdr(&mut w, 0x6474_e551, 6, 0, 0, 0, 0); // PT_GNU_STACK interleaved
        }
    }
    if im.segs.is_empty() {
        phdr(&mut w, 0x6474_e551, 6, 0, 0, 0, 0);
    }
    phdr(&mut w, 1, 4, meta_off as u64, META_VADDR, meta.b.len() as u64, meta.b.len() as u64);
    phdr(&mut w, 2, 4, (meta_off + dynamic_at) as u64, META_VADDR + dynamic_at as u64, dynamic_sz as u64, dynamic_sz as u64);
    for (i, d) in data.iter().enumerate() {
        w.pad_to(seg_off[i]);
        w.b.extend_from_slice(d);
    }
    w.pad_to(meta_off);
    w.b.extend_from_slice(&meta.b);
    w.pad_to(symtab_off);
    w.b.extend_from_slice(&symtab.b);
    w.b.extend_from_slice(&strtab);
    w.b.extend_from_slice(shstr);
    w.pad_to(shoff);
    let shdr = |w: &mut W, name: u32, ty: u32, flags: u64, addr: u64, offset: u64, size: u64, link: u32, info: u32, entsize: u64| {
        w.u32(name);
        w.u32(ty);
        w.word(flags);
        w.word(addr);
        w.word(offset);
        w.word(size);
        w.u32(link);
        w.u32(info);
        w.word(8);
        w.word(entsize);
    };
    shdr(&mut w, 0, 0, 0, 0, 0, 0, 0, 0, 0);
    shdr(&mut w, 1, 2, 0, 0, symtab_off as u64, symtab.b.len() as u64, 2, 1, symsize as u64); // .symtab -> link .strtab
    shdr(&mut w, 9, 3, 0, 0, strtab_off as u64, strtab.len() as u64, 0, 0, 0); // .strtab
    shdr(&mut w, 17, 3, 0, 0, shstr_off as u64, shstr.len() as u64, 0, 0, 0); // .shstrtab
    let (t_addr, t_size) = im.segs.first().map(|s| (s.vaddr, s.filesz)).unwrap_or((0, 0));
    shdr(&mut w, 27, 1, 6, t_addr, seg_off.first().cloned().unwrap_or(0) as u64, t_size, 0, 0, 0); // .text
    // ---- expected image
    let perm = |flags: u32| -> u32 { (if flags & 4 != 0 { 1 } else { 0 }) | (if flags & 2 != 0 { 2 } else { 0 }) | (if flags & 1 != 0 { 4 } else { 0 }) };
    let mut exp: BTreeMap<u64, (u8, u32)> = BTreeMap::new();
    for (i, s) in im.segs.iter().enumerate() {
        for k in 0..s.memsz {
            let byte = if k < s.filesz { data[i][k as usize] } else { 0 };
            exp.insert(s.vaddr + k, (byte, perm(s.flags)));
        }
    }
    for (k, b) in meta.b.iter().enumerate() {
        exp.insert(META_VADDR + k as u64, (*b, 1));
    }
    (w.b, exp)
}

fn image_json(im: &Image) -> Value {
    json!({
        "machine": im.machine, "is64": im.is64, "big": im.big,
        "segs": im.segs.iter().map(|s| json!([s.vaddr, s.filesz, s.memsz, s.flags])).collect::<Vec<_>>(),
        "syms": im.syms.iter().map(|s| json!([s.name, s.value, s.func, s.defined, s.dynamic])).collect::<Vec<_>>(),
        "entry": im.entry, "user": im.user, "plt_sym": im.plt_sym, "plt_offset": im.plt_offset
    })
}
fn leak(s: &str) -> &'static str {
    Box::leak(s.to_string().into_boxed_str())
}
fn image_parse(v: &Value) -> Image {
    Image {
        machine: v["machine"].as_u64().unwrap() as u16,
        is64: v["is64"].as_bool().unwrap(),
        big: v["big"].as_bool().unwrap(),
        segs: v["segs"].as_array().unwrap().iter().map(|s| Seg { vaddr: s[0].as_u64().unwrap(), filesz: s[1].as_u64().unwrap(), memsz: s[2].as_u64().unwrap(), flags: s[3].as_u64().unwrap() as u32 }).collect(),
        syms: v["syms"].as_array().unwrap().iter().map(|s| Sym { name: leak(s[0].as_str().unwrap()), value: s[1].as_u64().unwrap(), func: s[2].as_bool().unwrap(), defined: s[3].as_bool().unwrap(), dynamic: s[4].as_bool().unwrap() }).collect(),
        entry: v["entry"].as_u64().unwrap(),
        user: v["user"].as_array().unwrap().iter().map(|x| x.as_u64().unwrap()).collect(),
        plt_sym: v["plt_sym"].as_u64().map(|x| x as usize),
        plt_offset: v["plt_offset"].as_u64().unwrap_or(0),
    }
}

struct Report {
    arch: String,
    endian_big: bool,
    sections: BTreeMap<u64, (Vec<u8>, u32)>,
    entries: BTreeSet<u64>,
    symbols: BTreeSet<(String, u64)>,
    program_entry: u64,
}

fn load(bytes: &[u8], base: u64, user: &[u64]) -> Result<Report, String> {
    let r = guarded(|| -> Result<Report, String> {
        let mut elf = Elf::new(bytes.to_vec(), base).map_err(|e| format!("Elf::new: {}", e))?;
        for u in user {
            elf.add_user_function(*u);
        }
        let mem = elf.memory().map_err(|e| format!("memory(): {}", e))?;
        let sections = mem.sections().iter().map(|(a, s)| (*a, (s.data().to_vec(), s.permissions().bits()))).collect();
        let entries = elf.function_entries().map_err(|e| format!("function_entries(): {}", e))?.iter().map(|f| f.address()).collect();
        let symbols = Loader::symbols(&elf).iter().map(|s| (s.name().to_string(), s.address())).collect();
        Ok(Report { arch: elf.architecture().name().to_string(), endian_big: elf.architecture().endian() == Endian::Big, sections, entries, symbols, program_entry: elf.program_entry() })
    });
    match r {
        Ok(x) => x,
        Err(p) => Err(format!("panic: {}", panic_class(&p))),
    }
}

fn check(acc: &mut Acc, im: &Image, bases: &[u64]) {
    acc.count("evaluations", 1);
    let case = || image_json(im);
    let (bytes, exp) = write_elf(im);
    let r0 = match load(&bytes, 0, &im.user) {
        Ok(r) => r,
        Err(e) => {
            let k = if e.starts_with("panic") { "panic" } else { "error" };
            acc.violation(format!("C19|load-{}|{}", k, e.chars().take(40).collect::<String>()), format!("well-formed image does not load: {}", e), case());
            return;
        }
    };
    acc.count("nontrivial", 1);
    // architecture and endianness
    let want_arch = match (im.machine, im.big) {
        (3, _) => "x86",
        (62, _) => "amd64",
        (8, true) => "mips",
        (8, false) => "mipsel",
        (20, _) => "ppc",
        (183, false) => "aarch64",
        _ => "aarch64eb",
    };
    if r0.arch != want_arch || r0.endian_big != im.big {
        acc.violation(format!("C19|architecture|{}", want_arch), format!("architecture {} endian_big {} for machine {} big {}", r0.arch, r0.endian_big, im.machine, im.big), case());
    }
    // memory image
    let image_of = |r: &Report, base: u64| -> Result<BTreeMap<u64, (u8, u32)>, String> {
        let mut m = BTreeMap::new();
        for (a, (d, p)) in &r.sections {
            for (k, b) in d.iter().enumerate() {
                if m.insert(a.wrapping_add(k as u64).wrapping_sub(base), (*b, *p)).is_some() {
                    return Err("overlapping sections".into());
                }
            }
        }
        Ok(m)
    };
    match image_of(&r0, 0) {
        Err(e) => acc.violation("C19|memory|overlap", e, case()),
        Ok(got) => {
            if got != exp {
                let cls = if let Some((a, _)) = got.iter().find(|(a, _)| !exp.contains_key(a)) {
                    format!("extra-byte-mapped at {:#x}", a)
                } else if let Some((a, _)) = exp.iter().find(|(a, _)| !got.contains_key(a)) {
                    format!("byte-missing at {:#x}", a)
                } else {
                    let (a, (g, e)) = got.iter().zip(exp.iter()).find(|(g, e)| g != e).map(|(g, e)| (*g.0, (*g.1, *e.1))).unwrap();
                    if g.0 != e.0 {
                        format!("wrong-byte at {:#x}: {:#x} expected {:#x}", a, g.0, e.0)
                    } else {
                        format!("wrong-permissions at {:#x}: {:#b} expected {:#b}", a, g.1, e.1)
                    }
                };
                let key = cls.split(' ').next().unwrap().to_string();
                acc.violation(format!("C19|memory|{}", key), cls, case());
            }
        }
    }
    // function entries
    let mut want: BTreeSet<u64> = im.syms.iter().filter(|s| s.func && s.defined && s.value != 0).map(|s| s.value).collect();
    want.insert(im.entry);
    want.extend(im.user.iter().cloned());
    if r0.entries != want {
        acc.violation("C19|function-entries|set", format!("entries {:x?} expected {:x?}", r0.entries, want), case());
    }
    if r0.program_entry != im.entry {
        acc.violation("C19|program-entry|base0", format!("{:#x} expected {:#x}", r0.program_entry, im.entry), case());
    }
    acc.outcome(&(r0.entries.len(), r0.symbols.len(), exp.len()));
    // differential: base B
    for &b in bases {
        if b == 0 {
            continue;
        }
        acc.count("evaluations", 1);
        let rb = match load(&bytes, b, &im.user) {
            Ok(r) => r,
            Err(e) => {
                acc.violation("C19|rebase|load-fails".to_string(), format!("loading at base {:#x} fails: {}", b, e), case());
                continue;
            }
        };
        let s0: BTreeMap<u64, &(Vec<u8>, u32)> = r0.sections.iter().map(|(a, v)| (a.wrapping_add(b), v)).collect();
        let sb: BTreeMap<u64, &(Vec<u8>, u32)> = rb.sections.iter().map(|(a, v)| (*a, v)).collect();
        if s0 != sb {
            acc.violation("C19|rebase|sections", format!("sections at base {:#x} are not the base-0 sections shifted", b), case());
        }
        let e0: BTreeSet<u64> = r0.entries.iter().map(|a| a.wrapping_add(b)).collect();
        if e0 != rb.entries {
            acc.violation("C19|rebase|function-entries", format!("base {:#x}: {:x?} expected {:x?}", b, rb.entries, e0), case());
        }
        if rb.program_entry != r0.program_entry.wrapping_add(b) {
            acc.violation("C19|rebase|program-entry", format!("base {:#x}: program_entry() = {:#x}, base-0 value {:#x}", b, rb.program_entry, r0.program_entry), case());
        }
        let y0: BTreeSet<(String, u64)> = r0.symbols.iter().map(|(n, a)| (n.clone(), a.wrapping_add(b))).collect();
        if y0 != rb.symbols {
            let odd: Vec<_> = rb.symbols.symmetric_difference(&y0).take(2).cloned().collect();
            let plt = im.plt_sym.is_some() && odd.iter().any(|(_, a)| *a == im.plt_offset || *a == im.plt_offset.wrapping_add(b));
            acc.violation(format!("C19|rebase|symbols|{}", if plt { "plt-relocation-symbol" } else { "other" }), format!("base {:#x}: symbols differ from base-0 + B, e.g. {:x?}", b, odd), case());
        }
    }
}

fn images(thorough: bool) -> Vec<Image> {
    let targets: Vec<(u16, bool, bool)> = vec![(3, false, false), (62, true, false), (8, false, true), (8, false, false), (20, false, true), (183, true, false), (183, true, true)];
    let seg_opts: Vec<Seg> = {
        let mut v = Vec::new();
        for vaddr in [0x1000u64, 0x2008] {
            for filesz in [0u64, 3, 0x10] {
                for extra in [0u64, 5] {
                    for flags in if thorough { vec![4u32, 6, 5, 7] } else { vec![4, 6, 5] } {
                        v.push(Seg { vaddr, filesz, memsz: filesz + extra, flags });
                    }
                }
            }
        }
        v
    };
    let sym_sets: Vec<(Vec<Sym>, Option<usize>)> = vec![
        (vec![], None),
        (
            vec![
                Sym { name: "f_def", value: 0x1004, func: true, defined: true, dynamic: false },
                Sym { name: "f_undef", value: 0x1008, func: true, defined: false, dynamic: false },
                Sym { name: "f_zero", value: 0, func: true, defined: true, dynamic: false },
                Sym { name: "obj", value: 0x100c, func: false, defined: true, dynamic: false },
            ],
            None,
        ),
        (
            vec![
                Sym { name: "d_def", value: 0x1002, func: true, defined: true, dynamic: true },
                Sym { name: "d_undef", value: 0, func: true, defined: false, dynamic: true },
                Sym { name: "d_def", value: 0x1002, func: true, defined: true, dynamic: false },
                Sym { name: "s_def", value: 0x1006, func: true, defined: true, dynamic: false },
            ],
            Some(2),
        ),
    ];
    let mut out = Vec::new();
    for (machine, is64, big) in targets {
        for s1 in &seg_opts {
            let second: Vec<Option<Seg>> = if thorough { vec![None, Some(Seg { vaddr: 0x3000, filesz: 4, memsz: 9, flags: 6 }), Some(Seg { vaddr: 0x3000, filesz: 0, memsz: 0, flags: 4 })] } else { vec![None, Some(Seg { vaddr: 0x3000, filesz: 4, memsz: 9, flags: 6 })] };
            for s2 in second {
                for (syms, plt) in &sym_sets {
                    for entry in [0x1001u64, 0x1004] {
                        for user in [vec![], vec![0x100a, 0x1004]] {
                            let mut segs = vec![s1.clone()];
                            if let Some(s) = &s2 {
                                segs.push(s.clone());
                            }
                            out.push(Image { machine, is64, big, segs, syms: syms.clone(), entry, user: user.clone(), plt_sym: *plt, plt_offset: 0x3004 });
                        }
                    }
                }
            }
        }
    }
    out
}

fn run(ctx: &Ctx) -> Acc {
    let mut acc = Acc::new();
    for (n, im) in images(ctx.tier.thorough()).iter().enumerate() {
        if !ctx.mine(n as u64) {
            continue;
        }
        ctx.trace(|| format!("image\t{}", image_json(im)));
        let bases: Vec<u64> = if im.is64 { vec![0, 2, 6, 0x10000, 0x7f00_0000_0000] } else { vec![0, 2, 6, 0x10000, 0x4000_0000] };
        check(&mut acc, im, &bases);
    }
    // linked objects (ElfLinker)
    let dir = c19_link::scratch_dir(ctx);
    let base = images(ctx.tier.thorough()).len() as u64;
    for (n, sc) in c19_link::scenarios(ctx.tier.thorough()).iter().enumerate() {
        if !ctx.mine(base + n as u64) {
            continue;
        }
        ctx.trace(|| format!("link\t{}", c19_link::scenario_json(sc)));
        c19_link::check(&mut acc, sc, &dir);
    }
    let _ = std::fs::remove_dir_all(&dir);
    if ctx.shard == 0 {
        if let Some(im) = images(false).get(7) {
            acc.sample(image_json(im));
        }
        if let Some(sc) = c19_link::scenarios(false).get(100) {
            acc.sample(c19_link::scenario_json(sc));
        }
    }
    acc
}

fn replay(case: &Value) -> Acc {
    let mut acc = Acc::new();
    if case.get("link").is_some() {
        let dir = crate::report::verif_dir().join("target").join("tmp").join(format!("c19-link-replay-{}", std::process::id()));
        let _ = std::fs::create_dir_all(&dir);
        c19_link::check(&mut acc, &c19_link::scenario_parse(case), &dir);
        let _ = std::fs::remove_dir_all(&dir);
        return acc;
    }
    let im = image_parse(case);
    let bases: Vec<u64> = if im.is64 { vec![0, 2, 6, 0x10000, 0x7f00_0000_0000] } else { vec![0, 2, 6, 0x10000, 0x4000_0000] };
    check(&mut acc, &im, &bases);
    acc
}
