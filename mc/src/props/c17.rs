//! C17 — stack-pointer offsets hold on every execution, for every architecture.
use crate::archs::{self, ARCH_NAMES};
use crate::bv::Val;
use crate::gen::{self, Alphabet, GenCfg, ProgSpec, Succ};
use crate::refil::{self, End, IntrinsicMode, Loc, RState, Step};
use crate::report::{Acc, Describe};
use crate::util::{guarded, panic_class};
use crate::{Ctx, Prop};
use falcon::analysis::stack_pointer_offsets::{stack_pointer_offsets, StackPointerOffset};
use falcon::architecture::Endian;
use falcon::il::{self, Expression as E, FunctionLocation as FL};
use serde_json::{json, Value};
use std::collections::{BTreeMap, BTreeSet, HashSet};

pub fn prop() -> Prop {
    Prop {
        id: "C17",
        describe,
        run,
        replay,
        shards: |_| 16,
        timeout_s: |t| if t.thorough() { 3400 } else { 300 },
        mem_limit: 4 << 30,
    }
}

fn describe() -> Describe {
    Describe {
        id: "C17",
        level: "model_checking",
        rule: "for each of the 7 architectures: every IL function (entry block without incoming edge) on <=2 blocks with <=3 (3 blocks: \
               <=2) instructions over the architecture's own stack-pointer scalar from {sp-=4, sp+=8, sp-=0x1000, sp=(sp-4)+8, \
               sp&=~15, sp^=sp, sp=const, sp=r, r=sp, sp=r+4, load sp, store via sp, nop}, plus lifted prologue/epilogue snippets \
               per architecture; the analysis must complete, and in the product with every concrete execution (4 initial SP values \
               x 2 register values) whenever it reports Value(o) after a location, sp - sp_entry == o modulo 2^width.",
        assumptions: vec![
            "offsets are compared modulo the pointer width (the 32-bit value 4294967292 is accepted for -4)".into(),
            "runs are cut after 48 steps (loops with a non-zero net change never repeat a state); reported as a cap".into(),
            "lifted snippets: every scalar the lifted IL mentions is pre-set, a window around SP is mapped".into(),
        ],
        engine: "program enumerator + product explorer (16 processes)",
    }
}

fn alphabet(sp: &il::Scalar) -> Alphabet {
    let w = sp.bits();
    let s = || E::scalar(sp.clone());
    let r = || il::scalar("r", w);
    let c = |v: u64| il::expr_const(v, w);
    let ops = vec![
        il::Operation::assign(sp.clone(), E::sub(s(), c(4)).unwrap()),
        il::Operation::assign(sp.clone(), E::add(s(), c(8)).unwrap()),
        il::Operation::assign(sp.clone(), E::sub(s(), c(0x1000)).unwrap()),
        // frames at and beyond 2 GiB: the offset is a signed quantity of the stack pointer's width
        il::Operation::assign(sp.clone(), E::sub(s(), c(0x8000_0000)).unwrap()),
        il::Operation::assign(sp.clone(), E::sub(s(), c(0x1_0000_0000)).unwrap()),
        il::Operation::assign(sp.clone(), E::add(E::sub(s(), c(4)).unwrap(), c(8)).unwrap()),
        il::Operation::assign(sp.clone(), E::and(s(), il::Constant::new(!15u64, w).into()).unwrap()),
        il::Operation::assign(sp.clone(), E::xor(s(), s()).unwrap()),
        // constant on the left: `K + sp` is a displacement, `K - sp` is not (it negates the stack pointer)
        il::Operation::assign(sp.clone(), E::add(c(8), s()).unwrap()),
        il::Operation::assign(sp.clone(), E::sub(c(0x100), s()).unwrap()),
        il::Operation::assign(sp.clone(), E::sub(c(0x100), E::sub(s(), c(4)).unwrap()).unwrap()),
        il::Operation::assign(sp.clone(), E::sub(s(), E::scalar(r())).unwrap()),
        il::Operation::assign(sp.clone(), c(0x2000)),
        il::Operation::assign(sp.clone(), E::scalar(r())),
        il::Operation::assign(r(), s()),
        il::Operation::assign(sp.clone(), E::add(E::scalar(r()), c(4)).unwrap()),
        il::Operation::load(sp.clone(), s()),
        il::Operation::store(s(), E::scalar(r())),
        il::Operation::nop(),
        // a placeholder no-op wrapping a stack adjustment: nothing executes
        il::Operation::placeholder(il::Operation::assign(sp.clone(), E::sub(s(), c(16)).unwrap())),
    ];
    let guards = vec![(E::cmpeq(E::scalar(r()), c(0)).unwrap(), E::cmpneq(E::scalar(r()), c(0)).unwrap())];
    Alphabet { ops, guards, guards3: vec![] }
}

fn op_class(op: &il::Operation, sp: &il::Scalar) -> &'static str {
    match op {
        il::Operation::Assign { dst, src } if dst == sp => {
            fn linear(e: &E, sp: &il::Scalar) -> bool {
                match e {
                    E::Scalar(s) => s == sp,
                    E::Add(a, b) => (linear(a, sp) && matches!(**b, E::Constant(_))) || (linear(b, sp) && matches!(**a, E::Constant(_))),
                    E::Sub(a, b) => linear(a, sp) && matches!(**b, E::Constant(_)),
                    _ => false,
                }
            }
            if linear(src, sp) {
                "sp=sp+-const"
            } else if src.scalars().iter().any(|s| *s == sp) {
                "sp=nonlinear(sp)"
            } else if src.scalars().is_empty() {
                "sp=const"
            } else {
                "sp=other-register"
            }
        }
        il::Operation::Load { dst, .. } if dst == sp => "load-sp",
        _ => "other",
    }
}

fn all_scalars(f: &il::Function) -> BTreeSet<(String, usize)> {
    let mut out = BTreeSet::new();
    let mut add = |e: &E| {
        for s in e.scalars() {
            out.insert((s.name().to_string(), s.bits()));
        }
    };
    for b in f.blocks() {
        for i in b.instructions() {
            match i.operation() {
                il::Operation::Assign { dst, src } => {
                    add(&E::scalar(dst.clone()));
                    add(src)
                }
                il::Operation::Store { index, src } => {
                    add(index);
                    add(src)
                }
                il::Operation::Load { dst, index } => {
                    add(&E::scalar(dst.clone()));
                    add(index)
                }
                il::Operation::Branch { target } => add(target),
                _ => {}
            }
        }
    }
    for e in f.edges() {
        if let Some(c) = e.condition() {
            add(c)
        }
    }
    out
}

/// Run the analysis and every concrete execution; `kind` labels the case family.
fn check_function(acc: &mut Acc, arch_name: &str, f: &il::Function, kind: &str, case: &dyn Fn() -> Value) {
    let arch = archs::arch(arch_name);
    let sp = arch.stack_pointer();
    let w = sp.bits();
    acc.count("evaluations", 1);
    let wclass = if w == 64 { "64-bit" } else { "32-bit" };
    let spo: BTreeMap<FL, StackPointerOffset> = match guarded(|| stack_pointer_offsets(f, arch.as_ref())) {
        Ok(Ok(m)) => m.into_iter().map(|(k, v)| (k.function_location().clone(), v)).collect(),
        Ok(Err(e)) => {
            let ek = match e {
                falcon::Error::Sort => "Sort",
                _ => "other",
            };
            acc.violation(format!("C17|completion|error-{}|{},{}", ek, wclass, kind), format!("{}: stack_pointer_offsets failed: {}", arch_name, e), case());
            return;
        }
        Err(pn) => {
            acc.violation(format!("C17|completion|panic:{}|{},{}", panic_class(&pn), wclass, kind), format!("{}: panicked: {}", arch_name, pn), case());
            return;
        }
    };
    if spo.values().any(|v| v.is_value()) {
        acc.count("nontrivial", 1);
    }
    let scalars = all_scalars(f);
    let mask: u128 = if w >= 128 { u128::MAX } else { (1u128 << w) - 1 };
    let sp_inits: Vec<u128> = vec![0x1000, 0x1008, 1u128 << (w - 1), mask - 7];
    for sp0 in sp_inits {
        for rv in [0u128, 5] {
            let mut st = RState::new(if arch.endian() == Endian::Big { End::Big } else { End::Little });
            for (name, bits) in &scalars {
                let v = if *name == "r" { rv } else { 0x40 + (name.len() as u128) };
                st.set(name, Val::new(v, *bits));
            }
            st.set(sp.name(), Val::new(sp0, w));
            let span: i64 = if kind == "il" { 16 } else { 96 };
            for d in -span..span {
                st.mem.insert((sp0 as u64).wrapping_add(d as u64) & (mask as u64), (d & 0xff) as u8);
            }
            for a in (0x2000 - span as u64)..(0x2000 + span as u64) {
                st.mem.entry(a).or_insert(0x11);
            }
            let mut loc = match Loc::entry(f) {
                Ok(l) => l,
                Err(_) => return,
            };
            let mut seen: HashSet<(Loc, RState)> = HashSet::new();
            let mut steps = 0;
            loop {
                if !seen.insert((loc.clone(), st.clone())) {
                    break;
                }
                if steps >= 48 {
                    acc.cap("C17: concrete runs cut at 48 steps");
                    break;
                }
                steps += 1;
                acc.count("states", 1);
                let here = loc.to_falcon(f).unwrap();
                let op = loc.instruction(f).map(|i| i.operation().clone());
                let step = refil::step(f, &loc, &mut st, IntrinsicMode::Identity);
                acc.count("transitions", 1);
                if matches!(step, Step::Fault(_)) {
                    break;
                }
                match spo.get(&here) {
                    None => acc.violation(format!("C17|location-missing|{}", kind), format!("{}: no offset for executed location {:?}", arch_name, here), case()),
                    Some(StackPointerOffset::Value(o)) => {
                        let actual = st.get(sp.name()).map(|v| v.low_u128()).unwrap_or(0);
                        let expect = (sp0.wrapping_add(*o as i128 as u128)) & mask;
                        if actual != expect {
                            let cls = op.as_ref().map(|o| op_class(o, &sp)).unwrap_or("edge");
                            acc.violation(
                                format!("C17|wrong-offset|after:{}|{},{}", cls, wclass, kind),
                                format!(
                                    "{}: after {:?} (`{}`) analysis says offset {} but sp={:#x} with entry sp={:#x} (true offset {})",
                                    arch_name,
                                    here,
                                    op.map(|o| format!("{}", o)).unwrap_or_default(),
                                    o,
                                    actual,
                                    sp0,
                                    (actual.wrapping_sub(sp0) & mask) as i128
                                ),
                                case(),
                            );
                        }
                        acc.outcome(&(arch_name, *o));
                    }
                    Some(_) => {}
                }
                match step {
                    Step::Next(l, _) => loc = l,
                    _ => break,
                }
            }
        }
    }
    acc.count("traces", 8);
}

fn snippets(arch_name: &str) -> Vec<(&'static str, Vec<u8>)> {
    match arch_name {
        "x86" => vec![
            ("push ebp; mov ebp,esp; sub esp,16; leave; ret", vec![0x55, 0x89, 0xe5, 0x83, 0xec, 0x10, 0xc9, 0xc3]),
            ("push eax; pop ecx; ret", vec![0x50, 0x59, 0xc3]),
            ("and esp,-16; ret", vec![0x83, 0xe4, 0xf0, 0xc3]),
            ("sub esp,8; add esp,8; ret", vec![0x83, 0xec, 0x08, 0x83, 0xc4, 0x08, 0xc3]),
        ],
        "amd64" => vec![
            ("push rbp; mov rbp,rsp; sub rsp,16; leave; ret", vec![0x55, 0x48, 0x89, 0xe5, 0x48, 0x83, 0xec, 0x10, 0xc9, 0xc3]),
            ("push rax; pop rcx; ret", vec![0x50, 0x59, 0xc3]),
            ("and rsp,-16; ret", vec![0x48, 0x83, 0xe4, 0xf0, 0xc3]),
            ("sub rsp,8; add rsp,8; ret", vec![0x48, 0x83, 0xec, 0x08, 0x48, 0x83, 0xc4, 0x08, 0xc3]),
        ],
        "mips" | "mipsel" => vec![
            ("addiu sp,-32; sw ra,28(sp); lw ra,28(sp); addiu sp,32; jr ra; nop", archs::code_bytes(arch_name, &[0x27bdffe0, 0xafbf001c, 0x8fbf001c, 0x27bd0020, 0x03e00008, 0])),
            ("addiu sp,-8; jr ra; addiu sp,8", archs::code_bytes(arch_name, &[0x27bdfff8, 0x03e00008, 0x27bd0008])),
        ],
        "ppc" => vec![
            ("stwu r1,-16(r1); addi r1,r1,16; blr", archs::code_bytes(arch_name, &[0x9421fff0, 0x38210010, 0x4e800020])),
            ("addi r1,r1,-32; addi r1,r1,32; blr", archs::code_bytes(arch_name, &[0x3821ffe0, 0x38210020, 0x4e800020])),
        ],
        _ => vec![
            ("sub sp,sp,#16; stp x29,x30,[sp,#-16]!; ldp x29,x30,[sp],#16; add sp,sp,#16; ret", archs::code_bytes(arch_name, &[0xd10043ff, 0xa9bf7bfd, 0xa8c17bfd, 0x910043ff, 0xd65f03c0])),
            ("sub sp,sp,#32; add sp,sp,#32; ret", archs::code_bytes(arch_name, &[0xd10083ff, 0x910083ff, 0xd65f03c0])),
        ],
    }
}

fn no_edge_into_entry(spec: &ProgSpec) -> bool {
    spec.entry == 0
        && !spec.succ.iter().any(|s| match s {
            Succ::One(t) => *t == 0,
            Succ::Two(a, b, _) => *a == 0 || *b == 0,
            Succ::Cond(t, _) => *t == 0,
            Succ::Three(a, b, c) => *a == 0 || *b == 0 || *c == 0,
            Succ::None => false,
        })
}

fn run(ctx: &Ctx) -> Acc {
    let mut acc = Acc::new();
    let thorough = ctx.tier.thorough();
    let mut unit = 0u64;
    for arch_name in ARCH_NAMES {
        let sp = archs::arch(arch_name).stack_pointer();
        let alpha = alphabet(&sp);
        // quick: the full 2-block space for one 32-bit and one 64-bit architecture, a reduced one for the
        // others (they differ only in the stack pointer's name); thorough: everything everywhere
        let primary = thorough || arch_name == "x86" || arch_name == "amd64";
        let cfgs = vec![
            GenCfg { max_blocks: 2, max_instrs: if primary { 3 } else { 2 }, max_per_block: 3, n_ops: alpha.ops.len(), n_guards: 1, all_entries: false, cond_edges: false, with_exit: false, three_way: false },
            GenCfg { max_blocks: 3, max_instrs: if thorough { 3 } else if primary { 2 } else { 1 }, max_per_block: 2, n_ops: alpha.ops.len(), n_guards: 1, all_entries: false, cond_edges: false, with_exit: false, three_way: false },
        ];
        for (ci, cfg) in cfgs.iter().enumerate() {
            gen::for_each(cfg, |_, spec| {
                if ci == 1 && spec.n() < 3 {
                    return true;
                }
                if !no_edge_into_entry(spec) {
                    return true;
                }
                unit += 1;
                if !ctx.mine(unit) {
                    return true;
                }
                ctx.trace(|| format!("prog\t{}", json!({"arch": arch_name, "spec": spec.to_json(&alpha)})));
                let f = spec.build(&alpha, 0x1000);
                check_function(&mut acc, arch_name, &f, "il", &|| json!({"arch": arch_name, "spec": spec.to_json(&alpha)}));
                true
            });
        }
        for (si, (text, bytes)) in snippets(arch_name).into_iter().enumerate() {
            unit += 1;
            if !ctx.mine(unit) {
                continue;
            }
            let case = || json!({"arch": arch_name, "snippet": si, "asm": text});
            match guarded(|| archs::lift_function(arch_name, 0x4000, &bytes)) {
                Ok(Ok(f)) => {
                    acc.count("lifted_snippets", 1);
                    check_function(&mut acc, arch_name, &f, "lifted", &case)
                }
                Ok(Err(e)) => acc.note(format!("snippet `{}` on {} does not lift: {}", text, arch_name, e)),
                Err(pn) => acc.note(format!("snippet `{}` on {}: lifter panicked: {}", text, arch_name, pn)),
            }
        }
    }
    if ctx.shard == 0 {
        acc.sample(json!({"arch": "amd64", "snippet": 0, "asm": "push rbp; mov rbp,rsp; sub rsp,16; leave; ret"}));
        let sp = archs::arch("mips").stack_pointer();
        let alpha = alphabet(&sp);
        let spec = ProgSpec { entry: 0, exit: None, succ: vec![Succ::Two(1, 2, 0), Succ::One(2), Succ::None], blocks: vec![vec![0], vec![1], vec![8]] };
        acc.sample(json!({"arch": "mips", "spec": spec.to_json(&alpha)}));
    }
    acc
}

fn replay(case: &Value) -> Acc {
    let mut acc = Acc::new();
    let arch_name = case["arch"].as_str().unwrap_or("x86").to_string();
    if let Some(si) = case.get("snippet").and_then(|s| s.as_u64()) {
        let (_, bytes) = snippets(&arch_name).into_iter().nth(si as usize).unwrap();
        if let Ok(Ok(f)) = guarded(|| archs::lift_function(&arch_name, 0x4000, &bytes)) {
            check_function(&mut acc, &arch_name, &f, "lifted", &|| case.clone());
        }
    } else {
        let sp = archs::arch(&arch_name).stack_pointer();
        let alpha = alphabet(&sp);
        let spec = ProgSpec::from_json(&case["spec"]);
        let f = spec.build(&alpha, 0x1000);
        check_function(&mut acc, &arch_name, &f, "il", &|| case.clone());
    }
    acc
}
