//! C04 — IL expression evaluation is exact fixed-width bit-vector arithmetic.
use crate::bv::{self, Bin, Bits, BvErr, ALL_BIN};
use crate::report::{Acc, Describe, Tier};
use crate::util::{guarded, panic_class};
use crate::{Ctx, Prop};
use falcon::executor::eval;
use falcon::il::{self, Constant, Expression as E};
use falcon::Error;
use num_bigint::BigUint;
use serde_json::{json, Value};

pub fn prop() -> Prop {
    Prop {
        id: "C04",
        describe,
        run,
        replay,
        shards: |_| 16,
        timeout_s: |t| if t.thorough() { 1500 } else { 240 },
        mem_limit: 3 << 30,
    }
}

fn describe() -> Describe {
    Describe {
        id: "C04",
        level: "exploration",
        rule: "exhaustive grid: every binary operator / comparison / extension / truncation / ite over ALL operand \
               values at small widths (1..6 quick, 1..10 thorough) and over the boundary alphabet squared (shift amounts 0..w+2, 2^k, 2^64-1, 2^64, \
               2^w-1) at widths {16,32,33,63,64,65,128,129} (quick) / every width 11..136 and the neighbourhoods of 192, 256, 512, 1024 (thorough), through il::Constant methods AND through Expression constructors + executor::eval; \
               all depth-2 expression trees over a 3-bit leaf alphabet; constructor sort-rejection for all unequal width \
               pairs; sra/rotl/replace_scalar against the same reference. A case is non-trivial when the reference \
               defines a value or a specific error for it; every enumerated case is distinct by construction.",
        assumptions: vec![
            "oracle: harness bit-vector reference (Vec<bool> textbook algorithms), self-tested against native u64/i64 arithmetic at start-up".into(),
            "falcon is built with overflow-checks=on (as in the repository's dev-profile test runs), so usize underflow is a catchable panic".into(),
            "width 0 is not exercised; rotl by more than the width is not compared".into(),
            "workers run under RLIMIT_AS=3GiB so unbounded allocation shows up as a worker death attributed to one case".into(),
        ],
        engine: "grid enumerator (16 worker processes)",
    }
}

fn to_const(b: &Bits) -> Constant {
    Constant::new_big(BigUint::from_bytes_le(&b.to_bytes_le()), b.w())
}
fn from_const(c: &Constant) -> Bits {
    Bits::from_bytes_le(&c.value().to_bytes_le(), c.bits())
}
fn hex(b: &Bits) -> String {
    bv::Val::from_bits(b.clone()).show()
}
fn parse_hex(s: &str) -> Bits {
    // "0x1F:8"
    let (v, w) = s.split_once(':').unwrap();
    let w: usize = w.parse().unwrap();
    let v = BigUint::parse_bytes(v.trim_start_matches("0x").as_bytes(), 16).unwrap();
    Bits::from_bytes_le(&v.to_bytes_le(), w)
}

fn err_class(e: &Error) -> &'static str {
    match e {
        Error::Sort => "Sort",
        Error::DivideByZero => "DivideByZero",
        _ => "OtherError",
    }
}

fn bin_name(op: Bin) -> &'static str {
    match op {
        Bin::Add => "add",
        Bin::Sub => "sub",
        Bin::Mul => "mul",
        Bin::Divu => "divu",
        Bin::Modu => "modu",
        Bin::Divs => "divs",
        Bin::Mods => "mods",
        Bin::And => "and",
        Bin::Or => "or",
        Bin::Xor => "xor",
        Bin::Shl => "shl",
        Bin::Shr => "shr",
        Bin::AShr => "ashr",
        Bin::Cmpeq => "cmpeq",
        Bin::Cmpneq => "cmpneq",
        Bin::Cmplts => "cmplts",
        Bin::Cmpltu => "cmpltu",
    }
}
fn bin_from(name: &str) -> Bin {
    *ALL_BIN.iter().find(|b| bin_name(**b) == name).unwrap()
}

fn const_bin(op: Bin, a: &Constant, b: &Constant) -> Result<Constant, Error> {
    match op {
        Bin::Add => a.add(b),
        Bin::Sub => a.sub(b),
        Bin::Mul => a.mul(b),
        Bin::Divu => a.divu(b),
        Bin::Modu => a.modu(b),
        Bin::Divs => a.divs(b),
        Bin::Mods => a.mods(b),
        Bin::And => a.and(b),
        Bin::Or => a.or(b),
        Bin::Xor => a.xor(b),
        Bin::Shl => a.shl(b),
        Bin::Shr => a.shr(b),
        Bin::AShr => a.ashr(b),
        Bin::Cmpeq => a.cmpeq(b),
        Bin::Cmpneq => a.cmpneq(b),
        Bin::Cmplts => a.cmplts(b),
        Bin::Cmpltu => a.cmpltu(b),
    }
}
fn expr_bin(op: Bin, a: E, b: E) -> Result<E, Error> {
    match op {
        Bin::Add => E::add(a, b),
        Bin::Sub => E::sub(a, b),
        Bin::Mul => E::mul(a, b),
        Bin::Divu => E::divu(a, b),
        Bin::Modu => E::modu(a, b),
        Bin::Divs => E::divs(a, b),
        Bin::Mods => E::mods(a, b),
        Bin::And => E::and(a, b),
        Bin::Or => E::or(a, b),
        Bin::Xor => E::xor(a, b),
        Bin::Shl => E::shl(a, b),
        Bin::Shr => E::shr(a, b),
        Bin::AShr => E::ashr(a, b),
        Bin::Cmpeq => E::cmpeq(a, b),
        Bin::Cmpneq => E::cmpneq(a, b),
        Bin::Cmplts => E::cmplts(a, b),
        Bin::Cmpltu => E::cmpltu(a, b),
    }
}

/// class of a shift amount relative to the width (part of the finding key for shifts)
fn amount_class(b: &Bits) -> &'static str {
    let w = b.w();
    if b.0.iter().skip(64).any(|x| *x) {
        return "amount>=2^64";
    }
    let v = b.low_u128();
    if v < w as u128 {
        "amount<width"
    } else if v == w as u128 {
        "amount=width"
    } else {
        "amount>width"
    }
}

fn arg_class(op: Bin, a: &Bits, b: &Bits) -> String {
    match op {
        Bin::Shl | Bin::Shr | Bin::AShr => {
            format!("{},lhs{}", amount_class(b), if a.msb() { "<0" } else { ">=0" })
        }
        _ => {
            if a.w() > 64 {
                "width>64".to_string()
            } else {
                "width<=64".to_string()
            }
        }
    }
}

/// Compare one observed outcome with the reference outcome.
fn compare(
    acc: &mut Acc,
    surface: &str,
    opname: &str,
    class: &str,
    got: Result<Result<Constant, Error>, String>,
    exp: &Result<Bits, BvErr>,
    case: impl FnOnce() -> Value,
) {
    acc.count("evaluations", 1);
    let problem: Option<(String, String)> = match (&got, exp) {
        (Err(p), _) => Some((
            format!("panic:{}", panic_class(p)),
            format!("panicked: {}", p),
        )),
        (Ok(Ok(c)), Ok(b)) => {
            acc.count("nontrivial", 1);
            if c.bits() != b.w() {
                Some((
                    "wrong-width".into(),
                    format!("result width {} expected {}", c.bits(), b.w()),
                ))
            } else if c.value().bits() as usize > c.bits() {
                Some(("unnormalised".into(), "value exceeds width".into()))
            } else if from_const(c) != *b {
                Some((
                    "wrong-value".into(),
                    format!("got {} expected {}", c, hex(b)),
                ))
            } else {
                acc.outcome(&(opname.len(), b));
                None
            }
        }
        (Ok(Ok(c)), Err(e)) => Some((
            format!("value-instead-of-{:?}", e),
            format!("got {} expected error {:?}", c, e),
        )),
        (Ok(Err(e)), Ok(b)) => Some((
            format!("error-{}-instead-of-value", err_class(e)),
            format!("got error {} expected {}", e, hex(b)),
        )),
        (Ok(Err(e)), Err(x)) => {
            acc.count("nontrivial", 1);
            let ok = matches!(
                (e, x),
                (Error::Sort, BvErr::Sort) | (Error::DivideByZero, BvErr::DivZero)
            );
            if ok {
                None
            } else {
                Some((
                    format!("error-{}-instead-of-{:?}", err_class(e), x),
                    format!("got error {} expected {:?}", e, x),
                ))
            }
        }
    };
    if let Some((obs, what)) = problem {
        acc.violation(
            format!("C04|{}|{}|{}|{}", surface, opname, obs, class),
            format!("{} {}: {}", surface, opname, what),
            case(),
        );
    }
}

fn check_bin(acc: &mut Acc, op: Bin, a: &Bits, b: &Bits) {
    let exp = a.bin(op, b);
    let class = if a.w() != b.w() {
        "width-mismatch".to_string()
    } else {
        arg_class(op, a, b)
    };
    let case = || json!({"kind":"bin","op":bin_name(op),"a":hex(a),"b":hex(b)});
    let (ca, cb) = (to_const(a), to_const(b));
    let got = guarded(|| const_bin(op, &ca, &cb));
    compare(acc, "const", bin_name(op), &class, got, &exp, case);
    let got = guarded(|| expr_bin(op, ca.clone().into(), cb.clone().into()).and_then(|e| eval(&e)));
    compare(acc, "eval", bin_name(op), &class, got, &exp, case);
}

fn check_ext(acc: &mut Acc, which: &str, a: &Bits, n: usize) {
    let exp = match which {
        "zext" => a.zext(n),
        "sext" => a.sext(n),
        _ => a.trun(n),
    };
    let class = if which == "sext" && n % 8 != 0 {
        "target-not-multiple-of-8"
    } else if n > 64 {
        "target>64"
    } else {
        "target<=64"
    };
    let case = || json!({"kind":"ext","op":which,"a":hex(a),"n":n});
    let ca = to_const(a);
    let got = guarded(|| match which {
        "zext" => ca.zext(n),
        "sext" => ca.sext(n),
        _ => ca.trun(n),
    });
    // Constant-level rejection rules are an implementation detail (Constant::sext only accepts byte
    // multiples); the property speaks about evaluating expressions, so the Constant surface is compared
    // only where the constructor of the same name accepts the operands.
    let ctor = guarded(|| match which {
        "zext" => E::zext(n, ca.clone().into()),
        "sext" => E::sext(n, ca.clone().into()),
        _ => E::trun(n, ca.clone().into()),
    });
    match ctor {
        Err(p) => compare(acc, "ctor", which, class, Err(p), &exp, case),
        Ok(Err(e)) => compare(acc, "ctor", which, class, Ok(Err(e)), &exp, case),
        Ok(Ok(e)) => {
            if exp.is_err() {
                acc.count("evaluations", 1);
                acc.violation(
                    format!("C04|ctor|{}|accepted-ill-sorted|{}", which, class),
                    format!("Expression::{}({}, {}-bit) accepted", which, n, a.w()),
                    case(),
                );
            } else {
                compare(acc, "const", which, class, got, &exp, case);
                let got = guarded(|| eval(&e));
                compare(acc, "eval", which, class, got, &exp, case);
            }
        }
    }
}

fn check_ite(acc: &mut Acc, c: &Bits, t: &Bits, e: &Bits) {
    let exp = if c.w() != 1 || t.w() != e.w() {
        Err(BvErr::Sort)
    } else if c.0[0] {
        Ok(t.clone())
    } else {
        Ok(e.clone())
    };
    let case = || json!({"kind":"ite","c":hex(c),"t":hex(t),"e":hex(e)});
    let got = guarded(|| {
        E::ite(to_const(c).into(), to_const(t).into(), to_const(e).into()).and_then(|x| eval(&x))
    });
    compare(acc, "eval", "ite", "-", got, &exp, case);
}

fn check_sra(acc: &mut Acc, a: &Bits, b: &Bits) {
    let exp = a.ashr(b);
    let class = if a.w() != b.w() {
        "width-mismatch".to_string()
    } else {
        arg_class(Bin::AShr, a, b)
    };
    let case = || json!({"kind":"sra","a":hex(a),"b":hex(b)});
    let got = guarded(|| E::sra(to_const(a).into(), to_const(b).into()).and_then(|x| eval(&x)));
    compare(acc, "sra", "sra", &class, got, &exp, case);
}

fn check_rotl(acc: &mut Acc, a: &Bits, s: &Bits) {
    let w = a.w();
    if a.w() != s.w() {
        return;
    }
    // only amounts 0..=w have a rotate meaning that the builder can be held to
    if s.0.iter().skip(64).any(|x| *x) || s.low_u128() > w as u128 {
        return;
    }
    let n = s.low_u128() as usize;
    let exp: Result<Bits, BvErr> = Ok(Bits((0..w).map(|i| a.0[(i + w - (n % w)) % w]).collect()));
    let class = if n == 0 {
        "amount=0"
    } else if n == w {
        "amount=width"
    } else {
        "0<amount<width"
    };
    let case = || json!({"kind":"rotl","a":hex(a),"b":hex(s)});
    let got = guarded(|| E::rotl(to_const(a).into(), to_const(s).into()).and_then(|x| eval(&x)));
    compare(acc, "rotl", "rotl", class, got, &exp, case);
}

/// A small expression tree language for the depth-2 sweep and substitution checks.
#[derive(Clone, Debug)]
enum T {
    C(Bits),
    S(u8), // scalar leaf number (width from env)
    B(Bin, Box<T>, Box<T>),
    Z(usize, Box<T>),
    X(usize, Box<T>),
    Tr(usize, Box<T>),
    I(Box<T>, Box<T>, Box<T>),
}

fn t_json(t: &T) -> Value {
    match t {
        T::C(b) => json!(hex(b)),
        T::S(i) => json!(format!("s{}", i)),
        T::B(op, a, b) => json!([bin_name(*op), t_json(a), t_json(b)]),
        T::Z(n, a) => json!(["zext", n, t_json(a)]),
        T::X(n, a) => json!(["sext", n, t_json(a)]),
        T::Tr(n, a) => json!(["trun", n, t_json(a)]),
        T::I(c, a, b) => json!(["ite", t_json(c), t_json(a), t_json(b)]),
    }
}
fn t_parse(v: &Value) -> T {
    match v {
        Value::String(s) if s.starts_with('s') && !s.starts_with("0x") => T::S(s[1..].parse().unwrap()),
        Value::String(s) => T::C(parse_hex(s)),
        Value::Array(a) => {
            let n = a[0].as_str().unwrap();
            match n {
                "zext" => T::Z(a[1].as_u64().unwrap() as usize, Box::new(t_parse(&a[2]))),
                "sext" => T::X(a[1].as_u64().unwrap() as usize, Box::new(t_parse(&a[2]))),
                "trun" => T::Tr(a[1].as_u64().unwrap() as usize, Box::new(t_parse(&a[2]))),
                "ite" => T::I(
                    Box::new(t_parse(&a[1])),
                    Box::new(t_parse(&a[2])),
                    Box::new(t_parse(&a[3])),
                ),
                _ => T::B(bin_from(n), Box::new(t_parse(&a[1])), Box::new(t_parse(&a[2]))),
            }
        }
        _ => panic!("bad tree"),
    }
}
/// Reference evaluation; scalar leaves take values from `env`.
fn t_ref(t: &T, env: &[Bits]) -> Result<Bits, BvErr> {
    // well-sortedness is a static judgement on the whole tree (falcon's constructors reject at
    // build time), evaluation errors (zero divisor) come second
    if t_ref_sort(t, env).is_none() {
        return Err(BvErr::Sort);
    }
    t_ref_eval(t, env)
}
fn t_ref_eval(t: &T, env: &[Bits]) -> Result<Bits, BvErr> {
    let t_ref = t_ref_eval;
    Ok(match t {
        T::C(b) => b.clone(),
        T::S(i) => env[*i as usize].clone(),
        T::B(op, a, b) => {
            // the reference checks sorts bottom-up exactly like a well-sortedness judgement
            let (x, y) = (t_ref_sort(a, env), t_ref_sort(b, env));
            if x.is_none() || y.is_none() || x != y {
                return Err(BvErr::Sort);
            }
            t_ref(a, env)?.bin(*op, &t_ref(b, env)?)?
        }
        T::Z(n, a) => t_ref(a, env)?.zext(*n)?,
        T::X(n, a) => t_ref(a, env)?.sext(*n)?,
        T::Tr(n, a) => t_ref(a, env)?.trun(*n)?,
        T::I(c, a, b) => {
            let cv = t_ref(c, env)?;
            if cv.w() != 1 {
                return Err(BvErr::Sort);
            }
            // lazy in the untaken arm, like any if-then-else
            if cv.0[0] {
                t_ref(a, env)?
            } else {
                t_ref(b, env)?
            }
        }
    })
}
/// static width, None when ill-sorted
fn t_ref_sort(t: &T, env: &[Bits]) -> Option<usize> {
    match t {
        T::C(b) => Some(b.w()),
        T::S(i) => Some(env[*i as usize].w()),
        T::B(op, a, b) => {
            let (x, y) = (t_ref_sort(a, env)?, t_ref_sort(b, env)?);
            if x != y {
                return None;
            }
            Some(match op {
                Bin::Cmpeq | Bin::Cmpneq | Bin::Cmplts | Bin::Cmpltu => 1,
                _ => x,
            })
        }
        T::Z(n, a) | T::X(n, a) => {
            let x = t_ref_sort(a, env)?;
            if *n > x {
                Some(*n)
            } else {
                None
            }
        }
        T::Tr(n, a) => {
            let x = t_ref_sort(a, env)?;
            if *n < x && *n > 0 {
                Some(*n)
            } else {
                None
            }
        }
        T::I(c, a, b) => {
            let (c, x, y) = (t_ref_sort(c, env)?, t_ref_sort(a, env)?, t_ref_sort(b, env)?);
            if c == 1 && x == y {
                Some(x)
            } else {
                None
            }
        }
    }
}
/// Build through falcon's constructors. Scalars are named s0, s1.
fn t_build(t: &T, env: &[Bits]) -> Result<E, Error> {
    Ok(match t {
        T::C(b) => to_const(b).into(),
        T::S(i) => il::expr_scalar(format!("s{}", i), env[*i as usize].w()),
        T::B(op, a, b) => expr_bin(*op, t_build(a, env)?, t_build(b, env)?)?,
        T::Z(n, a) => E::zext(*n, t_build(a, env)?)?,
        T::X(n, a) => E::sext(*n, t_build(a, env)?)?,
        T::Tr(n, a) => E::trun(*n, t_build(a, env)?)?,
        T::I(c, a, b) => E::ite(t_build(c, env)?, t_build(a, env)?, t_build(b, env)?)?,
    })
}
fn t_has_scalar(t: &T) -> bool {
    match t {
        T::C(_) => false,
        T::S(_) => true,
        T::B(_, a, b) => t_has_scalar(a) || t_has_scalar(b),
        T::Z(_, a) | T::X(_, a) | T::Tr(_, a) => t_has_scalar(a),
        T::I(c, a, b) => t_has_scalar(c) || t_has_scalar(a) || t_has_scalar(b),
    }
}
fn t_top(t: &T) -> String {
    match t {
        T::C(_) => "const".into(),
        T::S(_) => "scalar".into(),
        T::B(op, a, b) => format!("{}({},{})", bin_name(*op), t_top1(a), t_top1(b)),
        T::Z(_, a) => format!("zext({})", t_top1(a)),
        T::X(n, a) => format!("sext{}({})", if n % 8 == 0 { "" } else { "-non-byte" }, t_top1(a)),
        T::Tr(_, a) => format!("trun({})", t_top1(a)),
        T::I(..) => "ite".into(),
    }
}
fn t_top1(t: &T) -> String {
    match t {
        T::C(_) => "c".into(),
        T::S(_) => "s".into(),
        T::B(op, ..) => bin_name(*op).into(),
        T::Z(..) => "zext".into(),
        T::X(n, _) => if n % 8 == 0 { "sext".into() } else { "sext-non-byte".to_string() },
        T::Tr(..) => "trun".into(),
        T::I(..) => "ite".into(),
    }
}

/// Tree check: build via constructors, (optionally) substitute scalars, evaluate, compare.
fn check_tree(acc: &mut Acc, t: &T, env: &[Bits]) {
    let exp = t_ref(t, env);
    let surface = if t_has_scalar(t) { "subst" } else { "tree" };
    let case = || json!({"kind":"tree","t":t_json(t),"env":env.iter().map(hex).collect::<Vec<_>>()});
    let got = guarded(|| {
        let mut e = t_build(t, env)?;
        for (i, v) in env.iter().enumerate() {
            e = e.replace_scalar(&il::scalar(format!("s{}", i), v.w()), &to_const(v).into())?;
        }
        eval(&e)
    });
    // classify by the operator pair so that keys stay narrow but finite
    let mut class = t_top(t);
    if let (Err(_), _) | (_, Err(_)) = (&got, &exp) {
        class.push_str("|err");
    }
    // refine by the shift-amount class when the root is a shift with a computable amount
    if let T::B(op @ (Bin::Shl | Bin::Shr | Bin::AShr), a, b) = t {
        if let (Ok(x), Ok(y)) = (t_ref(a, env), t_ref(b, env)) {
            if x.w() == y.w() {
                class = format!("{}|{}", class, arg_class(*op, &x, &y));
            }
        }
    }
    compare(acc, surface, "tree", &class, got, &exp, case);
}

fn all_values(w: usize) -> Vec<Bits> {
    (0..(1u128 << w)).map(|v| Bits::from_u128(v, w)).collect()
}

fn shift_amounts(w: usize) -> Vec<Bits> {
    let mut out: Vec<Bits> = Vec::new();
    let mut push = |b: Bits| {
        if !out.contains(&b) {
            out.push(b)
        }
    };
    for v in 0..=(w + 2) {
        push(Bits::from_u128(v as u128, w));
    }
    let mut k = 1u128;
    while k != 0 {
        push(Bits::from_u128(k, w));
        k = k.checked_shl(1).unwrap_or(0);
        if k >= 1u128 << 100 {
            break;
        }
    }
    push(Bits::from_u128(u64::MAX as u128, w));
    push(Bits::from_u128(u64::MAX as u128 + 1, w)); // 2^64 (zero when w <= 64)
    push(Bits::from_u128(u32::MAX as u128, w));
    push(Bits::from_u128(u32::MAX as u128 + 1, w));
    push(Bits::ones(w));
    if w > 64 {
        let mut b = Bits::zero(w);
        b.0[w - 1] = true;
        push(b);
    }
    out
}

fn run(ctx: &Ctx) -> Acc {
    let mut acc = Acc::new();
    let thorough = ctx.tier.thorough();
    let mut n: u64 = 0; // work-unit counter for sharding
    let mut unit = |n: &mut u64| {
        *n += 1;
        ctx.mine(*n - 1)
    };

    // (a) all values at small widths
    let maxw = if thorough { 10 } else { 6 };
    for w in 1..=maxw {
        let vals = all_values(w);
        for op in ALL_BIN {
            for a in &vals {
                if !unit(&mut n) {
                    continue;
                }
                ctx.trace(|| format!("bin-{}-w{}\t{}", bin_name(op), w, json!({"kind":"bin","op":bin_name(op),"a":hex(a),"b":"*"})));
                for b in &vals {
                    check_bin(&mut acc, op, a, b);
                }
            }
        }
        for a in &vals {
            if !unit(&mut n) {
                continue;
            }
            for b in &vals {
                check_sra(&mut acc, a, b);
                check_rotl(&mut acc, a, b);
            }
            for t in (w + 1)..=(w + 9) {
                check_ext(&mut acc, "zext", a, t);
                check_ext(&mut acc, "sext", a, t);
            }
            for t in [16, 24, 64, 72, 128, 136] {
                check_ext(&mut acc, "zext", a, t);
                check_ext(&mut acc, "sext", a, t);
            }
            for t in 0..=(w + 1) {
                // includes the rejected directions (t >= w for trun)
                if t >= 1 {
                    check_ext(&mut acc, "trun", a, t);
                }
                if t <= w && t >= 1 {
                    check_ext(&mut acc, "zext", a, t);
                    check_ext(&mut acc, "sext", a, t);
                }
            }
            for c in [Bits::from_u128(0, 1), Bits::from_u128(1, 1)] {
                for b in &vals {
                    check_ite(&mut acc, &c, a, b);
                }
            }
            if w > 1 {
                // non-1-bit condition must be rejected
                check_ite(&mut acc, a, a, a);
            }
        }
    }
    // (b) boundary widths
    let widths: Vec<usize> = if thorough {
        // every width from 11 to 136, then the neighbourhoods of 192, 256, 512 and 1024
        (11..=136).chain([191, 192, 193, 200, 255, 256, 257, 511, 512, 513, 1024]).collect()
    } else {
        vec![16, 32, 33, 63, 64, 65, 128, 129]
    };
    for &w in &widths {
        let vals = bv::boundary(w);
        let amts = shift_amounts(w);
        for op in ALL_BIN {
            if !unit(&mut n) {
                continue;
            }
            let shift = matches!(op, Bin::Shl | Bin::Shr | Bin::AShr);
            for a in &vals {
                for b in if shift { &amts } else { &vals } {
                    ctx.trace(|| format!("bin-{}-w{}\t{}", bin_name(op), w, json!({"kind":"bin","op":bin_name(op),"a":hex(a),"b":hex(b)})));
                    check_bin(&mut acc, op, a, b);
                }
            }
        }
        if unit(&mut n) {
            for a in &vals {
                for b in &amts {
                    ctx.trace(|| format!("sra-w{}\t{}", w, json!({"kind":"sra","a":hex(a),"b":hex(b)})));
                    check_sra(&mut acc, a, b);
                    check_rotl(&mut acc, a, b);
                }
            }
        }
        if unit(&mut n) {
            for a in &vals {
                for t in (w + 1)..=(w + 9) {
                    check_ext(&mut acc, "zext", a, t);
                    check_ext(&mut acc, "sext", a, t);
                }
                let mut t = 8;
                while t <= 136 {
                    if t > w {
                        check_ext(&mut acc, "zext", a, t);
                        check_ext(&mut acc, "sext", a, t);
                    }
                    t += 8;
                }
                for t in 1..w {
                    check_ext(&mut acc, "trun", a, t);
                }
                check_ext(&mut acc, "trun", a, w);
                check_ext(&mut acc, "trun", a, w + 1);
                check_ext(&mut acc, "zext", a, w);
                check_ext(&mut acc, "sext", a, w - 1);
                for c in [Bits::from_u128(0, 1), Bits::from_u128(1, 1)] {
                    for b in &vals {
                        check_ite(&mut acc, &c, a, b);
                    }
                }
            }
        }
    }
    // (d) constructor rejection for every unequal width pair in 1..=5 (values are irrelevant: all
    // values at the small widths are covered by check_bin anyway)
    for wa in 1..=5usize {
        for wb in 1..=5usize {
            if wa == wb || !unit(&mut n) {
                continue;
            }
            for op in ALL_BIN {
                for a in [Bits::zero(wa), Bits::ones(wa)] {
                    for b in [Bits::zero(wb), Bits::ones(wb), Bits::from_u128(1, wb)] {
                        check_bin(&mut acc, op, &a, &b);
                    }
                }
            }
            check_sra(&mut acc, &Bits::ones(wa), &Bits::from_u128(1, wb));
            check_ite(&mut acc, &Bits::from_u128(1, 1), &Bits::ones(wa), &Bits::ones(wb));
        }
    }
    // (c) depth-2 trees at width 3 over a 5-value leaf alphabet, constant leaves, and the same
    // trees with scalar leaves substituted by replace_scalar (e).
    let w = 3usize;
    let leaves: Vec<Bits> = [0u128, 1, 3, 4, 7].iter().map(|v| Bits::from_u128(*v, w)).collect();
    let ops_outer: Vec<Bin> = ALL_BIN.to_vec();
    let ops_inner: Vec<Bin> = if thorough {
        ALL_BIN.to_vec()
    } else {
        vec![Bin::Add, Bin::Sub, Bin::Mul, Bin::Divs, Bin::Mods, Bin::Shl, Bin::AShr, Bin::Cmplts, Bin::Xor]
    };
    for &o in &ops_outer {
        for &i1 in &ops_inner {
            if !unit(&mut n) {
                continue;
            }
            ctx.trace(|| format!("tree-{}-{}\t\"tree\"", bin_name(o), bin_name(i1)));
            for a in &leaves {
                for b in &leaves {
                    let inner = T::B(i1, Box::new(T::C(a.clone())), Box::new(T::C(b.clone())));
                    let inner_w = t_ref_sort(&inner, &[]).unwrap();
                    for c in &leaves {
                        // op(inner, c) and op(c, inner); comparisons make 1-bit inners, which must be
                        // rejected against 3-bit leaves and accepted against 1-bit ones
                        let cc = if inner_w == 1 { Bits::from_u128(c.low_u128() & 1, 1) } else { c.clone() };
                        for leaf in [c.clone(), cc] {
                            let t1 = T::B(o, Box::new(inner.clone()), Box::new(T::C(leaf.clone())));
                            let t2 = T::B(o, Box::new(T::C(leaf.clone())), Box::new(inner.clone()));
                            check_tree(&mut acc, &t1, &[]);
                            check_tree(&mut acc, &t2, &[]);
                        }
                        // scalar-substitution variant: leaves a, c become scalars s0, s1
                        let ts = T::B(
                            o,
                            Box::new(T::B(i1, Box::new(T::S(0)), Box::new(T::C(b.clone())))),
                            Box::new(T::S(1)),
                        );
                        check_tree(&mut acc, &ts, &[a.clone(), c.clone()]);
                        // same scalar on both sides
                        let ts = T::B(
                            o,
                            Box::new(T::B(i1, Box::new(T::S(0)), Box::new(T::S(0)))),
                            Box::new(T::C(c.clone())),
                        );
                        check_tree(&mut acc, &ts, &[a.clone()]);
                    }
                    if thorough || matches!(o, Bin::Add | Bin::Shl | Bin::AShr | Bin::Divs) {
                        // op(inner1, inner2) with a second inner over two leaves
                        for &i2 in &[Bin::Sub, Bin::Shr, Bin::Cmpltu, Bin::Divu, Bin::AShr] {
                            for c in &leaves {
                                for d in [&leaves[1], &leaves[4]] {
                                    let in2 = T::B(i2, Box::new(T::C(c.clone())), Box::new(T::C(d.clone())));
                                    let t = T::B(o, Box::new(inner.clone()), Box::new(in2));
                                    check_tree(&mut acc, &t, &[]);
                                }
                            }
                        }
                    }
                }
            }
        }
    }
    // unary wrappers around every binary operator, and ite over comparison
    for &i1 in &ALL_BIN {
        if !unit(&mut n) {
            continue;
        }
        for a in &leaves {
            for b in &leaves {
                let inner = T::B(i1, Box::new(T::C(a.clone())), Box::new(T::C(b.clone())));
                let iw = t_ref_sort(&inner, &[]).unwrap();
                for t in [iw + 1, 8, 12, 64, 65] {
                    check_tree(&mut acc, &T::Z(t, Box::new(inner.clone())), &[]);
                    check_tree(&mut acc, &T::X(t, Box::new(inner.clone())), &[]);
                    // sext/zext then truncate back, and arithmetic on the widened value
                    check_tree(
                        &mut acc,
                        &T::Tr(iw.max(1), Box::new(T::X(t, Box::new(inner.clone())))),
                        &[],
                    );
                }
                if iw > 1 {
                    for t in 1..iw {
                        check_tree(&mut acc, &T::Tr(t, Box::new(inner.clone())), &[]);
                    }
                }
                check_tree(&mut acc, &T::Tr(iw, Box::new(inner.clone())), &[]);
                check_tree(&mut acc, &T::Z(iw, Box::new(inner.clone())), &[]);
                // ite with the inner as condition (must be rejected unless 1 bit)
                let t = T::I(Box::new(inner.clone()), Box::new(T::C(a.clone())), Box::new(T::C(b.clone())));
                check_tree(&mut acc, &t, &[]);
                let t = T::I(Box::new(inner.clone()), Box::new(T::S(0)), Box::new(T::S(1)));
                check_tree(&mut acc, &t, &[a.clone(), b.clone()]);
            }
        }
    }
    if ctx.shard == 0 {
        acc.sample(json!({"kind":"bin","op":"ashr","a":"0x80:8","b":"0x9:8","reference":"0xFF:8"}));
        acc.sample(json!({"kind":"tree","t":["add",["mul","0x3:3","0x7:3"],"0x4:3"],"reference":hex(&t_ref(&T::B(Bin::Add, Box::new(T::B(Bin::Mul, Box::new(T::C(Bits::from_u128(3,3))), Box::new(T::C(Bits::from_u128(7,3))))), Box::new(T::C(Bits::from_u128(4,3)))), &[]).unwrap())}));
        acc.sample(json!({"kind":"ext","op":"sext","a":"0x5:3","n":12}));
    }
    acc
}

fn replay(case: &Value) -> Acc {
    let mut acc = Acc::new();
    let s = |k: &str| case[k].as_str().unwrap_or("").to_string();
    match s("kind").as_str() {
        "bin" if s("b") == "*" => {
            let a = parse_hex(&s("a"));
            for b in all_values(a.w().min(10)) {
                check_bin(&mut acc, bin_from(&s("op")), &a, &b)
            }
        }
        "bin" => check_bin(&mut acc, bin_from(&s("op")), &parse_hex(&s("a")), &parse_hex(&s("b"))),
        "ext" => check_ext(&mut acc, &s("op"), &parse_hex(&s("a")), case["n"].as_u64().unwrap() as usize),
        "ite" => check_ite(&mut acc, &parse_hex(&s("c")), &parse_hex(&s("t")), &parse_hex(&s("e"))),
        "sra" => check_sra(&mut acc, &parse_hex(&s("a")), &parse_hex(&s("b"))),
        "rotl" => check_rotl(&mut acc, &parse_hex(&s("a")), &parse_hex(&s("b"))),
        "tree" => {
            let env: Vec<Bits> = case["env"]
                .as_array()
                .map(|a| a.iter().map(|x| parse_hex(x.as_str().unwrap())).collect())
                .unwrap_or_default();
            check_tree(&mut acc, &t_parse(&case["t"]), &env)
        }
        _ => {}
    }
    acc
}

#[allow(dead_code)]
pub fn tier_unused(_: Tier) {}
