//! C03 — AArch64 lifter agrees with the Arm architecture pseudocode.
use crate::bv::Val;
use crate::isa_a64::{self, AOut, AState};
use crate::lifter::{self, BlockEnd, Lifted};
use crate::props::c05::mnemonic;
use crate::refil::{End, Fault, RState};
use crate::report::{Acc, Describe};
use crate::{Ctx, Prop};
use serde_json::{json, Value};
use std::collections::BTreeMap;

pub fn prop() -> Prop {
    Prop {
        id: "C03",
        describe,
        run,
        replay,
        shards: |_| 16,
        timeout_s: |t| if t.thorough() { 3400 } else { 300 },
        mem_limit: 4 << 30,
    }
}

fn describe() -> Describe {
    Describe {
        id: "C03",
        level: "exploration",
        rule: "exhaustive grid per A64 class the lifter accepts: add/sub immediate, shifted and extended register (all sf/op/S/shift/\
               option/imm3 values), the MOV aliases (ORR with ZR, MOVZ/MOVN, ORR bitmask immediate, ADD #0 to/from SP), loads/stores \
               (unscaled, pre/post-index, unsigned offset, register offset with every extend option, literal, pairs incl. LDPSW/LDNP/\
               STNP, acquire/release, B/H/S/D/Q register forms), B/BL/B.cond (16 conditions)/BR/BLR/RET/CBZ/CBNZ/TBZ/TBNZ; register \
               fields over {0,1,2,30,31} incl. aliasing, boundary immediates; x the 64-bit boundary alphabet squared for sources, \
               all 16 NZCV valuations for conditional branches, both data endiannesses. The lifted IL runs under the reference IL \
               interpreter and is compared with a reference A64 interpreter written from the Arm ARM pseudocode: X0-X30, SP, NZCV, \
               V0-V31, memory, next PC. Non-trivial = accepted word x state on which the reference defines the outcome.",
        assumptions: vec![
            "trusted base: harness A64 reference (AddWithCarry, ShiftReg, ExtendReg, DecodeBitMasks from the Arm ARM)".into(),
            "CONSTRAINED UNPREDICTABLE forms (write-back with Rn = Rt, load pair with Rt = Rt2) are skipped".into(),
            "accepted words the reference does not model (vector lane moves, ...) are counted as unmodelled_accepted".into(),
        ],
        engine: "grid enumerator + reference A64 interpreter (16 processes)",
    }
}

const PC: u64 = 0x1000;
const WIN: u64 = 0x3000;
const B64: [u64; 9] = [0, 1, 0xff, 0x7fff_ffff, 0x8000_0000, 0xffff_ffff, 0x7fff_ffff_ffff_ffff, 0x8000_0000_0000_0000, 0xffff_ffff_ffff_ffff];

fn base_state(big: bool) -> AState {
    base_state_p(big, 0)
}

/// `pat` 1 fills the data window with bytes whose top bit is set, so that sign-extending loads see negative values
fn base_state_p(big: bool, pat: u8) -> AState {
    let mut x = [0u64; 31];
    for (i, v) in x.iter_mut().enumerate() {
        *v = 0x0101_0101_0101_0101u64.wrapping_mul(i as u64 + 1) ^ 0x8000_0000_0000_0040;
    }
    let mut vr = [0u128; 32];
    for (i, v) in vr.iter_mut().enumerate() {
        *v = ((0xA0A0_0000_0000_0000u128 + i as u128) << 64) | (0x1111_2222_3333_0000 + i as u128);
    }
    let mut mem = BTreeMap::new();
    for i in 0..0x200u64 {
        mem.insert(WIN + i, if pat == 0 { (0x11 + i * 5) as u8 } else { 0xffu8 - ((i * 3) & 0x7f) as u8 });
    }
    for i in 0..0x80u64 {
        mem.insert(PC - 0x40 + i, (0x81 + i * 3) as u8);
    }
    AState { x, sp: WIN + 0x100, n: false, z: false, c: false, v: false, vr, mem, big }
}

fn il_state(a: &AState) -> RState {
    let mut st = RState::new(if a.big { End::Big } else { End::Little });
    for i in 0..31 {
        st.set(&format!("x{}", i), Val::new(a.x[i] as u128, 64));
    }
    st.set("sp", Val::new(a.sp as u128, 64));
    for (n, b) in [("n", a.n), ("z", a.z), ("c", a.c), ("v", a.v)] {
        st.set(n, Val::new(b as u128, 1));
    }
    for i in 0..32 {
        st.set(&format!("v{}", i), Val::new(a.vr[i], 128));
    }
    for (k, v) in &a.mem {
        st.mem.insert(*k, *v);
    }
    st
}

#[derive(Clone, Copy, PartialEq)]
enum Kind {
    Alu,
    Mem { offset: i64 },
    MemReg,
    Literal,
    CondBranch,
    RegBranch,
    Other,
}

fn states(w: u32, kind: Kind, big: bool, thorough: bool) -> Vec<AState> {
    let rn = ((w >> 5) & 31) as usize;
    let rm = ((w >> 16) & 31) as usize;
    let rt = (w & 31) as usize;
    let mut out = Vec::new();
    let set = |s: &mut AState, r: usize, v: u64, sp_class: bool| {
        if r == 31 {
            if sp_class {
                s.sp = v
            }
        } else {
            s.x[r] = v
        }
    };
    match kind {
        Kind::Alu => {
            let alpha: Vec<u64> = if thorough { B64.to_vec() } else { vec![0, 1, 0x7fff_ffff, 0xffff_ffff, 0x8000_0000_0000_0000, 0xffff_ffff_ffff_ffff] };
            for a in &alpha {
                for b in &alpha {
                    for fl in [false, true] {
                        let mut s = base_state(big);
                        set(&mut s, rn, *a, true);
                        if rm != rn {
                            set(&mut s, rm, *b, false);
                        }
                        s.n = fl;
                        s.z = fl;
                        s.c = fl;
                        s.v = fl;
                        out.push(s);
                        if rm == rn {
                            break;
                        }
                    }
                }
            }
        }
        Kind::Mem { offset } => {
            for (pat, v) in [(0u8, 0x1122_3344_5566_7788u64), (1, 0x8000_0000_8000_80ff)] {
                let mut s = base_state_p(big, pat);
                set(&mut s, rn, (WIN + 0x100).wrapping_sub(offset as u64), true);
                if rt != rn || rn == 31 {
                    set(&mut s, rt, v, false);
                }
                s.vr[rt] = ((v as u128) << 64) | (!v as u128);
                out.push(s);
            }
        }
        Kind::MemReg => {
            for (k, m) in [0u64, 8, 0xffff_ffff_ffff_fff8, 0x0000_0001_0000_0008, 0xffff_fff8].into_iter().enumerate() {
                let mut s = base_state_p(big, (k % 2) as u8);
                set(&mut s, rn, WIN + 0x100, true);
                if rm != rn {
                    set(&mut s, rm, m, false);
                }
                out.push(s);
            }
        }
        Kind::Literal | Kind::Other => out.push(base_state(big)),
        Kind::CondBranch => {
            for f in 0..16u32 {
                for v in [0u64, 1, 0x8000_0000_0000_0000, 0x1_0000_0000, 0xffff_ffff_0000_0000] {
                    let mut s = base_state(big);
                    s.n = f & 8 != 0;
                    s.z = f & 4 != 0;
                    s.c = f & 2 != 0;
                    s.v = f & 1 != 0;
                    set(&mut s, rt, v, false);
                    out.push(s);
                    if (w >> 24) == 0x54 {
                        break;
                    }
                }
            }
        }
        Kind::RegBranch => {
            for v in [0x2000u64, 0x1008, 0xffff_ffff_ffff_fffc] {
                let mut s = base_state(big);
                set(&mut s, rn, v, false);
                out.push(s);
            }
        }
    }
    out
}

fn check(acc: &mut Acc, arch: &str, w: u32, kind: Kind, class: &str, thorough: bool) {
    let big = arch == "aarch64eb";
    let bytes = w.to_le_bytes();
    let btr = match lifter::lift_block(arch, &bytes, PC, false) {
        Lifted::Ok(b) => b,
        _ => return,
    };
    acc.count("accepted_words", 1);
    let mn = mnemonic(arch, &bytes, PC);
    let case = |st: &AState| json!({"arch": arch, "word": format!("{:08x}", w), "class": class, "regs": {"rn": format!("{:#x}", if (w >> 5) & 31 == 31 { st.sp } else { st.x[((w >> 5) & 31) as usize] }), "rm": format!("{:#x}", st.x[(((w >> 16) & 31) as usize).min(30)]), "nzcv": [st.n, st.z, st.c, st.v]}});
    let mut reported = 0;
    for st0 in states(w, kind, big, thorough) {
        let mut a = st0.clone();
        let ao = isa_a64::step(&mut a, PC, w);
        acc.count("evaluations", 1);
        match ao {
            AOut::Unmodelled => {
                acc.count("unmodelled_accepted", 1);
                acc.note(format!("reference does not model accepted word {:08x} ({})", w, mn));
                return;
            }
            AOut::Unpredictable => {
                acc.count("unpredictable_skipped", 1);
                return;
            }
            _ => {}
        }
        let mut il = il_state(&st0);
        let end = lifter::run_block(&btr, &mut il, 5000);
        acc.count("nontrivial", 1);
        let sfbit = if w >> 31 == 1 { "64" } else { "32" };
        let mut report = |acc: &mut Acc, comp: &str, what: String| {
            if reported < 4 {
                acc.violation(format!("C03|{}|{}|{}|{},sf{}", if big { "eb" } else { "le" }, mn, comp, class, sfbit), format!("{:08x} `{}`: {}", w, mn, what), case(&st0));
            }
            reported += 1;
        };
        match (&ao, &end) {
            (AOut::Fault(_), BlockEnd::Fault(Fault::Unmapped(_))) => continue,
            (AOut::Fault(x), other) => {
                report(acc, "unmapped-access", format!("reference touches unmapped {:#x}, IL ends with {:?}", x, other));
                continue;
            }
            (AOut::Next(n), BlockEnd::Next(x)) => {
                if x != n {
                    report(acc, "next-pc", format!("IL continues at {:#x}, pseudocode at {:#x}", x, n));
                    continue;
                }
            }
            (AOut::Next(n), other) => {
                let cls = match other {
                    BlockEnd::Fault(f) => format!("il-fault:{}", f.class()),
                    BlockEnd::Intrinsic(_) => "spurious-intrinsic".to_string(),
                    BlockEnd::NoSuccessor => "no-successor".to_string(),
                    _ => "il-end".to_string(),
                };
                report(acc, &cls, format!("IL ends with {:?}, pseudocode continues at {:#x}", other, n));
                continue;
            }
            _ => continue,
        }
        for i in 0..31 {
            let got = il.get(&format!("x{}", i)).map(|v| v.low_u128() as u64);
            if got != Some(a.x[i]) {
                let role = if i == (w & 31) as usize { "rd/rt" } else if i == ((w >> 5) & 31) as usize { "rn" } else if i == 30 { "x30" } else { "other" };
                let diff = got.unwrap_or(0) ^ a.x[i];
                let cls = if diff & 0xffff_ffff == 0 { "upper32" } else { "value" };
                report(acc, &format!("reg:{}:{}", role, cls), format!("x{} = {:x?} in the IL, {:#x} per the pseudocode", i, got, a.x[i]));
                break;
            }
        }
        let got = il.get("sp").map(|v| v.low_u128() as u64);
        if got != Some(a.sp) {
            report(acc, "reg:sp", format!("sp = {:x?} in the IL, {:#x} per the pseudocode", got, a.sp));
        }
        for (n, b) in [("n", a.n), ("z", a.z), ("c", a.c), ("v", a.v)] {
            if il.get(n).map(|v| v.is_one()) != Some(b) {
                report(acc, &format!("flag:{}", n), format!("{} = {:?} in the IL, {} per the pseudocode", n, il.get(n), b));
            }
        }
        for i in 0..32 {
            let got = il.get(&format!("v{}", i)).map(|v| v.low_u128());
            if got != Some(a.vr[i]) {
                report(acc, "reg:vector", format!("v{} = {:x?} in the IL, {:#x} per the pseudocode", i, got, a.vr[i]));
                break;
            }
        }
        let keys: std::collections::BTreeSet<u64> = a.mem.keys().cloned().chain(il.mem.keys().cloned()).collect();
        for k in keys {
            if a.mem.get(&k) != il.mem.get(&k) {
                report(acc, "memory", format!("byte at {:#x}: IL {:x?}, pseudocode {:x?}", k, il.mem.get(&k), a.mem.get(&k)));
                break;
            }
        }
        acc.outcome(&(a.x[0], a.x[1], a.sp, a.n, a.z, a.c, a.v));
    }
}

fn words(thorough: bool) -> Vec<(u32, Kind, &'static str)> {
    let r5: [u32; 5] = [0, 1, 2, 30, 31];
    let r3: [u32; 3] = [0, 1, 31];
    let mut v: Vec<(u32, Kind, &'static str)> = Vec::new();
    // add/sub immediate
    for sf in 0..2u32 {
        for op in 0..2u32 {
            for s in 0..2u32 {
                for sh in 0..2u32 {
                    for imm in [0u32, 1, 0xfff] {
                        for rn in r5 {
                            for rd in r5 {
                                v.push(((sf << 31) | (op << 30) | (s << 29) | (0b100010 << 23) | (sh << 22) | (imm << 10) | (rn << 5) | rd, Kind::Alu, "addsub-imm"));
                            }
                        }
                    }
                }
            }
        }
    }
    // add/sub shifted register
    for sf in 0..2u32 {
        for op in 0..2u32 {
            for s in 0..2u32 {
                for sh in 0..3u32 {
                    for imm6 in [0u32, 1, 31, 32, 63] {
                        for rm in r3 {
                            for rn in if thorough { r5.to_vec() } else { r3.to_vec() } {
                                for rd in r3 {
                                    v.push(((sf << 31) | (op << 30) | (s << 29) | (0b01011 << 24) | (sh << 22) | (rm << 16) | (imm6 << 10) | (rn << 5) | rd, Kind::Alu, "addsub-shifted"));
                                }
                            }
                        }
                    }
                }
            }
        }
    }
    // add/sub extended register
    for sf in 0..2u32 {
        for op in 0..2u32 {
            for s in 0..2u32 {
                for option in 0..8u32 {
                    for imm3 in [0u32, 1, 4] {
                        for rm in r3 {
                            for rn in r3 {
                                for rd in r3 {
                                    v.push(((sf << 31) | (op << 30) | (s << 29) | (0b01011 << 24) | (1 << 21) | (rm << 16) | (option << 13) | (imm3 << 10) | (rn << 5) | rd, Kind::Alu, "addsub-extended"));
                                }
                            }
                        }
                    }
                }
            }
        }
    }
    // MOV aliases
    for sf in 0..2u32 {
        for rm in r5 {
            for rd in r5 {
                v.push(((sf << 31) | (1 << 29) | (0b01010 << 24) | (rm << 16) | (31 << 5) | rd, Kind::Alu, "mov-orr-reg"));
            }
        }
        for opc in [0u32, 2] {
            for hw in 0..4u32 {
                for imm in [0u32, 1, 0x8000, 0xffff] {
                    for rd in r3 {
                        v.push(((sf << 31) | (opc << 29) | (0b100101 << 23) | (hw << 21) | (imm << 5) | rd, Kind::Alu, "mov-wide"));
                    }
                }
            }
        }
        for n in 0..2u32 {
            for immr in [0u32, 1, 31, 63] {
                for imms in [0u32, 1, 30, 31, 62, 0x3c] {
                    for rd in r3 {
                        v.push(((sf << 31) | (1 << 29) | (0b100100 << 23) | (n << 22) | (immr << 16) | (imms << 10) | (31 << 5) | rd, Kind::Alu, "mov-bitmask"));
                    }
                }
            }
        }
    }
    // loads / stores, single register
    for size in 0..4u32 {
        for vbit in 0..2u32 {
            for opc in 0..4u32 {
                for rn in [1u32, 31] {
                    // rt == rn (1) exercises a load that overwrites its own base register
                    for rt in [0u32, 1, 2, 31] {
                        let basew = (size << 30) | (0b111 << 27) | (vbit << 26) | (opc << 22) | (rn << 5) | rt;
                        for imm12 in [0u32, 1, 3] {
                            let n = if vbit == 1 { 1i64 << (size | ((opc >> 1) << 2)).min(4) } else { 1i64 << size };
                            v.push((basew | (1 << 24) | (imm12 << 10), Kind::Mem { offset: imm12 as i64 * n }, "ldst-unsigned-offset"));
                        }
                        for imm9 in [0x100u32, 0x1ff, 0, 1, 0xff] {
                            let off = if imm9 & 0x100 != 0 { imm9 as i64 - 512 } else { imm9 as i64 };
                            v.push((basew | (imm9 << 12), Kind::Mem { offset: off }, "ldst-unscaled"));
                            v.push((basew | (imm9 << 12) | (1 << 10), Kind::Mem { offset: 0 }, "ldst-post-index"));
                            v.push((basew | (imm9 << 12) | (3 << 10), Kind::Mem { offset: off }, "ldst-pre-index"));
                        }
                        for option in [2u32, 3, 6, 7] {
                            for s in 0..2u32 {
                                for rm in [3u32, 31] {
                                    v.push((basew | (1 << 21) | (rm << 16) | (option << 13) | (s << 12) | (2 << 10), Kind::MemReg, "ldst-register-offset"));
                                }
                            }
                        }
                    }
                }
            }
        }
    }
    // literal
    for opc in 0..4u32 {
        for vbit in 0..2u32 {
            for imm19 in [1u32, 4, 0x7ffff, 0x7fff0] {
                for rt in r3 {
                    v.push(((opc << 30) | (0b011 << 27) | (vbit << 26) | (imm19 << 5) | rt, Kind::Literal, "ldr-literal"));
                }
            }
        }
    }
    // pairs
    for opc in 0..3u32 {
        for vbit in 0..2u32 {
            for mode in 0..4u32 {
                for l in 0..2u32 {
                    for imm7 in [0x40u32, 0x7f, 0, 1, 0x3f] {
                        // (3, 1) / (1, 3): the first / second transfer register is also the base (rn = 3)
                        for (rt, rt2) in [(0u32, 1u32), (2, 31), (31, 0), (3, 1), (1, 3)] {
                            for rn in [3u32, 31] {
                                let n: i64 = if vbit == 1 { 4 << opc } else if opc == 2 { 8 } else { 4 };
                                let off = (if imm7 & 0x40 != 0 { imm7 as i64 - 128 } else { imm7 as i64 }) * n;
                                let k = if mode == 1 { Kind::Mem { offset: 0 } } else { Kind::Mem { offset: off } };
                                v.push(((opc << 30) | (0b101 << 27) | (vbit << 26) | (mode << 23) | (l << 22) | (imm7 << 15) | (rt2 << 10) | (rn << 5) | rt, k, "ldst-pair"));
                            }
                        }
                    }
                }
            }
        }
    }
    // acquire / release
    for size in 0..4u32 {
        for l in 0..2u32 {
            for o0 in 0..2u32 {
                for rn in [1u32, 31] {
                    for rt in [0u32, 31] {
                        v.push(((size << 30) | (0b001000 << 24) | (1 << 23) | (l << 22) | (31 << 16) | (o0 << 15) | (31 << 10) | (rn << 5) | rt, Kind::Mem { offset: 0 }, "ldar-stlr"));
                    }
                }
            }
        }
    }
    // branches
    for imm in [1u32, 4, 0x03ff_ffff, 0x0200_0000] {
        v.push(((0b000101 << 26) | imm, Kind::Other, "b"));
        v.push(((0b100101 << 26) | imm, Kind::Other, "bl"));
    }
    for cond in 0..16u32 {
        for imm in [2u32, 0x7ffff] {
            v.push(((0x54 << 24) | (imm << 5) | cond, Kind::CondBranch, "b.cond"));
        }
    }
    for sf in 0..2u32 {
        for op in 0..2u32 {
            for rt in r3 {
                v.push(((sf << 31) | (0b011010 << 25) | (op << 24) | (2 << 5) | rt, Kind::CondBranch, "cbz"));
            }
        }
    }
    for bit in [0u32, 1, 31, 32, 63] {
        for op in 0..2u32 {
            for rt in r3 {
                v.push((((bit >> 5) << 31) | (0b011011 << 25) | (op << 24) | ((bit & 31) << 19) | (2 << 5) | rt, Kind::CondBranch, "tbz"));
            }
        }
    }
    for opc in 0..3u32 {
        for rn in [0u32, 1, 30, 31] {
            v.push((0xd61f_0000 | (opc << 21) | (rn << 5), Kind::RegBranch, "br-blr-ret"));
        }
    }
    v.push((0xd503201f, Kind::Other, "nop"));
    v.push((0x9100_03ff, Kind::Alu, "mov-sp")); // mov sp, sp
    v.push((0x9100_03e0, Kind::Alu, "mov-sp")); // mov x0, sp
    v.push((0x9100_001f, Kind::Alu, "mov-sp")); // mov sp, x0
    v
}

fn run(ctx: &Ctx) -> Acc {
    let mut acc = Acc::new();
    let thorough = ctx.tier.thorough();
    let mut unit = 0u64;
    for arch in ["aarch64", "aarch64eb"] {
        for (w, kind, class) in words(thorough) {
            unit += 1;
            if !ctx.mine(unit) {
                continue;
            }
            ctx.trace(|| format!("{}\t{}", arch, json!({"arch": arch, "word": format!("{:08x}", w), "class": class})));
            check(&mut acc, arch, w, kind, class, thorough);
        }
    }
    if ctx.shard == 0 {
        acc.sample(json!({"arch": "aarch64", "word": "eb01001f", "class": "addsub-shifted", "note": "cmp x0, x1 (subs xzr, x0, x1)"}));
        acc.sample(json!({"arch": "aarch64eb", "word": "a9bf7bfd", "class": "ldst-pair", "note": "stp x29, x30, [sp, #-16]!"}));
    }
    acc
}

fn replay(case: &Value) -> Acc {
    let mut acc = Acc::new();
    let arch = case["arch"].as_str().unwrap_or("aarch64").to_string();
    let w = u32::from_str_radix(case["word"].as_str().unwrap_or("0"), 16).unwrap_or(0);
    let class = case["class"].as_str().unwrap_or("");
    for (ww, kind, cl) in words(true) {
        if ww == w && (class.is_empty() || class == cl) {
            check(&mut acc, &arch, w, kind, cl, true);
            return acc;
        }
    }
    check(&mut acc, &arch, w, Kind::Alu, "replay", true);
    acc
}
