//! C06 — function recovery reproduces sequential machine-code execution.
use crate::archs;
use crate::bv::Val;
use crate::lifter::{self, BlockEnd, Lifted};
use crate::refil::{self, End, IntrinsicMode, Loc, RState, Step};
use crate::report::{Acc, Describe};
use crate::util::{guarded, panic_class};
use crate::{Ctx, Prop};
use falcon::architecture::Endian;
use falcon::il;
use falcon::translator::{ManualEdge, Options};
use serde_json::{json, Value};
use std::collections::{BTreeMap, BTreeSet};

pub fn prop() -> Prop {
    Prop {
        id: "C06",
        describe,
        run,
        replay,
        shards: |_| 16,
        timeout_s: |t| if t.thorough() { 3400 } else { 300 },
        mem_limit: 4 << 30,
    }
}

fn describe() -> Describe {
    Describe {
        id: "C06",
        level: "model_checking",
        rule: "per architecture (amd64, x86, mips, mipsel, aarch64, aarch64eb, ppc): ALL machine-code programs of N<=3 (thorough 4) \
               instructions over {increment of a per-position register, nop, conditional branch to any instruction index incl. \
               backwards/self, unconditional jump to any index, return} x both values of the branch-condition input x a nop run \
               placing each position at every window offset 56..66 (multiples of the instruction size) x function entry at \
               instruction 0 or 1 x manual-edge sets {none, constant-false conditional edge, unconditional edge}. \
               translate_function_extended's CFG is executed by the reference interpreter and compared with a fetch-execute loop \
               that lifts exactly one instruction (MIPS: branch + delay slot) at a time: same sequence of native instruction \
               addresses, same final registers; every reachable instruction appears in exactly one block with as many IL \
               instructions as in isolation; entry block address; no dangling edge/entry; manual edges present. \
               states = instructions executed in lock-step, transitions = functions recovered.",
        assumptions: vec![
            "per-instruction meaning is whatever the lifter says (C01-C03); only composition is checked".into(),
            "runs are cut at 300 native instructions".into(),
            "an unconditional manual edge is only checked for presence (it changes the executions by design)".into(),
        ],
        engine: "program enumerator + lock-step trace comparison (16 processes)",
    }
}

#[derive(Clone, Copy, Debug, PartialEq)]
enum Ins {
    Inc,
    Nop,
    Cond(usize),
    Jmp(usize),
    Ret,
    /// x86 only: `mov eax, imm32` whose immediate bytes are themselves two instructions (`inc ebx; inc esi`), so that a
    /// branch to the second byte decodes an overlapping instruction stream that re-joins at the next instruction
    Ovl,
    /// x86 only: conditional / unconditional branch to the second byte of the `Ovl` at this index
    CondMid(usize),
    JmpMid(usize),
}

struct Isa {
    name: &'static str,
    unit: usize,
}

const BASE: u64 = 0x10000;
const RETADDR: u64 = 0x7000_0000;

/// Encode a program. Returns (bytes, address of each logical instruction, set of native instruction start addresses -> length).
fn assemble(arch: &str, prog: &[Ins], fill_pos: usize, fill_len: usize) -> (Vec<u8>, Vec<u64>, BTreeMap<u64, usize>) {
    // first pass: sizes
    let x86 = arch == "x86" || arch == "amd64";
    let mips = arch.starts_with("mips");
    let size = |i: &Ins| -> usize {
        if x86 {
            match i {
                Ins::Inc => 2,
                Ins::Nop => 1,
                Ins::Cond(_) | Ins::Jmp(_) | Ins::CondMid(_) | Ins::JmpMid(_) => 2,
                Ins::Ret => 1,
                Ins::Ovl => 5,
            }
        } else if mips {
            match i {
                Ins::Inc | Ins::Nop => 4,
                _ => 8, // branch + delay slot (nop)
            }
        } else {
            4
        }
    };
    let nop_size = if x86 { 1 } else { 4 };
    let mut addr = Vec::new();
    let mut a = BASE;
    for (k, i) in prog.iter().enumerate() {
        if k == fill_pos {
            a += (fill_len * nop_size) as u64;
        }
        addr.push(a);
        a += size(i) as u64;
    }
    let end = a;
    let target = |t: usize| -> u64 { if t < prog.len() { addr[t] } else { end } };
    let mut bytes: Vec<u8> = Vec::new();
    let mut starts: BTreeMap<u64, usize> = BTreeMap::new();
    let word = |w: u32| -> [u8; 4] {
        match arch {
            "mips" | "ppc" => w.to_be_bytes(),
            _ => w.to_le_bytes(),
        }
    };
    let mut emit = |b: &[u8], starts: &mut BTreeMap<u64, usize>, bytes: &mut Vec<u8>| {
        starts.insert(BASE + bytes.len() as u64, b.len());
        bytes.extend_from_slice(b);
    };
    for (k, i) in prog.iter().enumerate() {
        if k == fill_pos {
            for _ in 0..fill_len {
                if x86 {
                    emit(&[0x90], &mut starts, &mut bytes);
                } else {
                    let n: u32 = match arch {
                        "aarch64" | "aarch64eb" => 0xd503201f,
                        "ppc" => 0x60000000,
                        _ => 0,
                    };
                    emit(&word(n), &mut starts, &mut bytes);
                }
            }
        }
        let here = addr[k];
        if x86 {
            let regs = [0u8, 3, 6, 7, 5, 2];
            match i {
                Ins::Inc => emit(&[0xff, 0xc0 + regs[k % 6]], &mut starts, &mut bytes),
                Ins::Nop => emit(&[0x90], &mut starts, &mut bytes),
                Ins::Cond(t) => emit(&[0x74, (target(*t) as i64 - (here as i64 + 2)) as u8], &mut starts, &mut bytes),
                Ins::Jmp(t) => emit(&[0xeb, (target(*t) as i64 - (here as i64 + 2)) as u8], &mut starts, &mut bytes),
                Ins::CondMid(t) => emit(&[0x74, (target(*t) as i64 + 1 - (here as i64 + 2)) as u8], &mut starts, &mut bytes),
                Ins::JmpMid(t) => emit(&[0xeb, (target(*t) as i64 + 1 - (here as i64 + 2)) as u8], &mut starts, &mut bytes),
                Ins::Ret => emit(&[0xc3], &mut starts, &mut bytes),
                Ins::Ovl => {
                    emit(&[0xb8, 0xff, 0xc3, 0xff, 0xc6], &mut starts, &mut bytes);
                    // the overlapping stream: inc ebx at +1, inc esi at +3, re-joining at +5
                    starts.insert(here + 1, 2);
                    starts.insert(here + 3, 2);
                }
            }
        } else if mips {
            let r = 8 + (k as u32 % 6);
            match i {
                Ins::Inc => emit(&word(0x24000001 | (r << 21) | (r << 16)), &mut starts, &mut bytes),
                Ins::Nop => emit(&word(0), &mut starts, &mut bytes),
                Ins::Cond(t) | Ins::Jmp(t) => {
                    let off = ((target(*t) as i64 - (here as i64 + 4)) >> 2) as u32 & 0xffff;
                    let w = if matches!(i, Ins::Cond(_)) { 0x10800000 | off } else { 0x10000000 | off };
                    let mut b = word(w).to_vec();
                    b.extend_from_slice(&word(0));
                    emit(&b, &mut starts, &mut bytes);
                }
                Ins::Ret => {
                    let mut b = word(0x03e00008).to_vec();
                    b.extend_from_slice(&word(0));
                    emit(&b, &mut starts, &mut bytes);
                }
                Ins::Ovl | Ins::CondMid(_) | Ins::JmpMid(_) => panic!("x86-only instruction"),
            }
        } else if arch == "ppc" {
            let r = 3 + (k as u32 % 6);
            let rel = |t: usize| (target(t) as i64 - here as i64) as u32;
            match i {
                Ins::Inc => emit(&word(0x38000001 | (r << 21) | (r << 16)), &mut starts, &mut bytes),
                Ins::Nop => emit(&word(0x60000000), &mut starts, &mut bytes),
                Ins::Cond(t) => emit(&word(0x41820000 | (rel(*t) & 0xfffc)), &mut starts, &mut bytes),
                Ins::Jmp(t) => emit(&word(0x48000000 | (rel(*t) & 0x03fffffc)), &mut starts, &mut bytes),
                Ins::Ret => emit(&word(0x4e800020), &mut starts, &mut bytes),
                Ins::Ovl | Ins::CondMid(_) | Ins::JmpMid(_) => panic!("x86-only instruction"),
            }
        } else {
            let r = 1 + (k as u32 % 6);
            let rel = |t: usize| ((target(t) as i64 - here as i64) >> 2) as u32;
            match i {
                Ins::Inc => emit(&word(0x91000400 | (r << 5) | r), &mut starts, &mut bytes),
                Ins::Nop => emit(&word(0xd503201f), &mut starts, &mut bytes),
                Ins::Cond(t) => emit(&word(0xb4000000 | ((rel(*t) & 0x7ffff) << 5)), &mut starts, &mut bytes),
                Ins::Jmp(t) => emit(&word(0x14000000 | (rel(*t) & 0x03ffffff)), &mut starts, &mut bytes),
                Ins::Ret => emit(&word(0xd65f03c0), &mut starts, &mut bytes),
                Ins::Ovl | Ins::CondMid(_) | Ins::JmpMid(_) => panic!("x86-only instruction"),
            }
        }
    }
    (bytes, addr, starts)
}

fn prog_json(prog: &[Ins]) -> Value {
    json!(prog
        .iter()
        .map(|i| match i {
            Ins::Inc => "inc".to_string(),
            Ins::Nop => "nop".to_string(),
            Ins::Cond(t) => format!("cond{}", t),
            Ins::Jmp(t) => format!("jmp{}", t),
            Ins::Ret => "ret".to_string(),
            Ins::Ovl => "ovl".to_string(),
            Ins::CondMid(t) => format!("condmid{}", t),
            Ins::JmpMid(t) => format!("jmpmid{}", t),
        })
        .collect::<Vec<_>>())
}
fn prog_parse(v: &Value) -> Vec<Ins> {
    v.as_array()
        .unwrap()
        .iter()
        .map(|s| {
            let s = s.as_str().unwrap();
            if s == "inc" {
                Ins::Inc
            } else if s == "nop" {
                Ins::Nop
            } else if s == "ret" {
                Ins::Ret
            } else if s == "ovl" {
                Ins::Ovl
            } else if let Some(t) = s.strip_prefix("condmid") {
                Ins::CondMid(t.parse().unwrap())
            } else if let Some(t) = s.strip_prefix("jmpmid") {
                Ins::JmpMid(t.parse().unwrap())
            } else if let Some(t) = s.strip_prefix("cond") {
                Ins::Cond(t.parse().unwrap())
            } else {
                Ins::Jmp(s[3..].parse().unwrap())
            }
        })
        .collect()
}

/// initial reference state: every scalar the program can mention, a stack with a return address
fn init_state(arch: &str, cond: bool) -> RState {
    let a = archs::arch(arch);
    let mut st = RState::new(if a.endian() == Endian::Big { End::Big } else { End::Little });
    let w = a.word_size();
    let v = |x: u128| Val::new(x, w);
    match arch {
        "x86" | "amd64" => {
            let regs: &[&str] = if arch == "amd64" { &["rax", "rbx", "rcx", "rdx", "rsi", "rdi", "rbp"] } else { &["eax", "ebx", "ecx", "edx", "esi", "edi", "ebp"] };
            for r in regs {
                // the second increment of a register that starts at all-ones makes ZF flip
                st.set(r, v(if cond { 0xffff_ffff } else { 5 }));
            }
            st.set(if arch == "amd64" { "rsp" } else { "esp" }, v(0x8000));
            for f in ["ZF", "CF", "SF", "OF", "DF", "PF", "AF"] {
                st.set(f, Val::new(cond as u128, 1));
            }
            let ra = RETADDR.to_le_bytes();
            for (i, b) in ra.iter().enumerate().take(w / 8) {
                st.mem.insert(0x8000 + i as u64, *b);
            }
        }
        "mips" | "mipsel" => {
            for r in ["$t0", "$t1", "$t2", "$t3", "$t4", "$t5", "$v0", "$a1"] {
                st.set(r, v(7));
            }
            st.set("$a0", v(if cond { 0 } else { 1 }));
            st.set("$ra", v(RETADDR as u128));
            st.set("$sp", v(0x8000));
        }
        "ppc" => {
            for r in 0..32 {
                st.set(&format!("r{}", r), v(7));
            }
            st.set("lr", v(RETADDR as u128));
            st.set("ctr", v(3));
            for f in ["cr0-eq", "cr0-lt", "cr0-gt", "cr0-so"] {
                st.set(f, Val::new(cond as u128, 1));
            }
        }
        _ => {
            for r in 0..31 {
                st.set(&format!("x{}", r), v(7));
            }
            st.set("x0", v(if cond { 0 } else { 1 }));
            st.set("x30", v(RETADDR as u128));
            st.set("sp", v(0x8000));
            for f in ["n", "z", "c", "v"] {
                st.set(f, Val::new(cond as u128, 1));
            }
        }
    }
    st
}

const MAX_NATIVE: usize = 300;

/// Reference: lift one instruction at a time. Returns (address trace, final state, how it ended).
fn run_reference(arch: &str, bytes: &[u8], starts: &BTreeMap<u64, usize>, entry: u64, mut st: RState) -> Result<(Vec<u64>, RState, String), String> {
    let mut pc = entry;
    let mut trace = Vec::new();
    let end = BASE + bytes.len() as u64;
    for _ in 0..MAX_NATIVE {
        if pc < BASE || pc >= end {
            return Ok((trace, st, format!("left image to {:#x}", pc)));
        }
        let len = match starts.get(&pc) {
            Some(l) => *l,
            None => return Ok((trace, st, format!("jumped into the middle of an instruction at {:#x}", pc))),
        };
        let off = (pc - BASE) as usize;
        let btr = match lifter::lift_block(arch, &bytes[off..off + len], pc, false) {
            Lifted::Ok(b) => b,
            Lifted::Err(e) => return Err(format!("isolated lifting at {:#x} failed: {}", pc, e)),
            Lifted::Panic(p) => return Err(format!("isolated lifting at {:#x} panicked: {}", pc, p)),
        };
        trace.push(pc);
        if arch.starts_with("mips") && len == 8 {
            trace.push(pc + 4); // the delay slot executes before control transfers
        }
        match lifter::run_block(&btr, &mut st, 10_000) {
            BlockEnd::Next(n) => pc = n,
            other => return Ok((trace, st, format!("{:?}", other))),
        }
    }
    Ok((trace, st, "step limit".into()))
}

/// Execute the recovered function; the trace is the sequence of native instruction addresses.
fn run_function(f: &il::Function, mut st: RState, is_mips: bool) -> (Vec<u64>, RState, String) {
    let mut trace: Vec<u64> = Vec::new();
    let mut loc = match Loc::entry(f) {
        Ok(l) => l,
        Err(e) => return (trace, st, format!("{:?}", e)),
    };
    for _ in 0..(MAX_NATIVE * 40) {
        if let Some(ins) = loc.instruction(f) {
            if let Some(a) = ins.address() {
                // MIPS marks the branch's own nop with address+1 hacks: a delay-slot graph carries the address
                // of the branch + 1, which is not an instruction address
                // address + 1 is the translator's marker for the branch half of a MIPS pair, not an
                // instruction address: dropped
                if !(is_mips && a % 4 == 1) && trace.last() != Some(&a) {
                    trace.push(a);
                }
            }
        }
        match refil::step(f, &loc, &mut st, IntrinsicMode::Fault) {
            Step::Next(l, _) => loc = l,
            Step::Halt(_) => return (trace, st, "halt".into()),
            Step::Branch(t) => return (trace, st, format!("branch {:#x}", t)),
            Step::Fault(fl) => return (trace, st, format!("fault {:?}", fl)),
        }
        if trace.len() > MAX_NATIVE {
            return (trace, st, "step limit".into());
        }
    }
    (trace, st, "step limit".into())
}

fn collapse(t: &[u64]) -> Vec<u64> {
    let mut out: Vec<u64> = Vec::new();
    for a in t {
        if out.last() != Some(a) {
            out.push(*a);
        }
    }
    out
}

#[derive(Clone, Debug)]
struct Case {
    arch: String,
    prog: Vec<Ins>,
    fill_pos: usize,
    fill_len: usize,
    entry_idx: usize,
    manual: u8, // 0 none, 1 constant-false conditional edge, 2 unconditional edge
}
impl Case {
    fn json(&self) -> Value {
        json!({"arch": self.arch, "prog": prog_json(&self.prog), "fill_pos": self.fill_pos, "fill_len": self.fill_len, "entry": self.entry_idx, "manual": self.manual})
    }
    fn parse(v: &Value) -> Case {
        Case {
            arch: v["arch"].as_str().unwrap().to_string(),
            prog: prog_parse(&v["prog"]),
            fill_pos: v["fill_pos"].as_u64().unwrap() as usize,
            fill_len: v["fill_len"].as_u64().unwrap() as usize,
            entry_idx: v["entry"].as_u64().unwrap() as usize,
            manual: v["manual"].as_u64().unwrap() as u8,
        }
    }
}

fn check(acc: &mut Acc, c: &Case) {
    let arch = c.arch.as_str();
    let (bytes, addrs, starts) = assemble(arch, &c.prog, c.fill_pos, c.fill_len);
    let entry = if c.entry_idx == 0 { BASE } else { addrs[c.entry_idx.min(addrs.len() - 1)] };
    let case = || c.json();
    acc.count("evaluations", 1);
    acc.count("transitions", 1);
    let shape = {
        let has_back = c.prog.iter().enumerate().any(|(k, i)| matches!(i, Ins::Cond(t) | Ins::Jmp(t) | Ins::CondMid(t) | Ins::JmpMid(t) if *t <= k));
        let overlapping = c.prog.iter().any(|i| matches!(i, Ins::CondMid(_) | Ins::JmpMid(_)));
        format!("{}{}{}{}", archs_family(arch), if has_back { ",backward-branch" } else { "" }, if c.fill_len > 0 { ",window-crossing" } else { "" }, if overlapping { ",overlapping-decode" } else { "" })
    };
    let mut options = Options::new();
    let mut manual_edge: Option<(u64, u64, bool)> = None;
    if c.manual > 0 {
        // from the entry block's address to the last instruction's address
        let head = entry;
        let tail = *addrs.last().unwrap();
        let cond = if c.manual == 1 { Some(il::expr_const(0, 1)) } else { None };
        manual_edge = Some((head, tail, c.manual == 1));
        options.add_manual_edge(ManualEdge::new(head, tail, cond));
    }
    for (a, len) in &starts {
        let off = (*a - BASE) as usize;
        if !matches!(lifter::lift_block(arch, &bytes[off..off + *len], *a, false), Lifted::Ok(_)) {
            acc.count("skipped_instruction_does_not_lift_alone", 1);
            return;
        }
    }
    let image = archs::image(arch, BASE, &bytes);
    let translator = archs::arch(arch).translator();
    let f = match guarded(|| translator.translate_function_extended(&image, entry, &options)) {
        Ok(Ok(f)) => f,
        Ok(Err(e)) => {
            // acceptable only if isolated lifting of some reachable instruction fails as well
            let r = run_reference(arch, &bytes, &starts, entry, init_state(arch, false));
            if r.is_ok() {
                acc.violation(format!("C06|recovery-error|{}", shape), format!("translate_function failed ({}), every instruction lifts in isolation", e), case());
            }
            return;
        }
        Err(pn) => {
            acc.violation(format!("C06|recovery-panic:{}|{}", panic_class(&pn), shape), format!("translate_function panicked: {}", pn), case());
            return;
        }
    };
    // ---- structural checks
    let cfg = f.control_flow_graph();
    let blocks: BTreeSet<usize> = cfg.blocks().iter().map(|b| b.index()).collect();
    match cfg.entry() {
        Some(e) if blocks.contains(&e) => {
            let a = cfg.block(e).unwrap().address();
            if a != Some(entry) && !(cfg.block(e).unwrap().is_empty()) {
                acc.violation(format!("C06|entry-block-address|{}", shape), format!("entry block address {:?}, function address {:#x}", a, entry), case());
            }
        }
        other => acc.violation(format!("C06|entry-missing|{}", shape), format!("entry {:?} blocks {:?}", other, blocks), case()),
    }
    for e in cfg.edges() {
        if !blocks.contains(&e.head()) || !blocks.contains(&e.tail()) {
            acc.violation(format!("C06|dangling-edge|{}", shape), format!("{}", e), case());
        }
    }
    if f.address() != entry {
        acc.violation(format!("C06|function-address|{}", shape), format!("{:#x} vs {:#x}", f.address(), entry), case());
    }
    // IL instruction count per native address
    let mut per_addr: BTreeMap<u64, usize> = BTreeMap::new();
    let mut blocks_of: BTreeMap<u64, BTreeSet<usize>> = BTreeMap::new();
    let is_mips = arch.starts_with("mips");
    for b in cfg.blocks() {
        for i in b.instructions() {
            if let Some(a) = i.address() {
                let a = if is_mips && a % 4 == 1 { a - 1 } else { a };
                *per_addr.entry(a).or_default() += 1;
                blocks_of.entry(a).or_default().insert(b.index());
            }
        }
    }
    // ---- dynamic: both values of the condition input
    for cond in [false, true] {
        let st0 = init_state(arch, cond);
        let (rt, rs, rend) = match run_reference(arch, &bytes, &starts, entry, st0.clone()) {
            Ok(x) => x,
            Err(_) => return,
        };
        let (ft, fs, fend) = run_function(&f, st0, is_mips);
        acc.count("states", rt.len() as u64);
        let (a, b) = (collapse(&rt), collapse(&ft));
        let n = a.len().min(b.len());
        let limited = rend == "step limit" || fend == "step limit";
        if limited {
            acc.count("runs_cut_at_horizon", 1);
            acc.cap("C06: non-terminating runs are compared up to a horizon of 300 native instructions");
        }
        let same_trace = if limited { a[..n.saturating_sub(1)] == b[..n.saturating_sub(1)] } else { a == b };
        if c.manual != 2 {
            if !same_trace {
                let k = a.iter().zip(&b).position(|(x, y)| x != y).unwrap_or(n);
                acc.violation(
                    format!("C06|trace-differs|{}{}", shape, if c.manual == 1 { ",false-manual-edge" } else { "" }),
                    format!("address traces diverge at step {}: reference {:x?} ({}), recovered function {:x?} ({})", k, &a[k.saturating_sub(2)..(k + 2).min(a.len())], rend, &b[k.saturating_sub(2)..(k + 2).min(b.len())], fend),
                    case(),
                );
                continue;
            }
            if !limited {
                // final register state (temporaries excluded)
                let strip = |s: &RState| -> BTreeMap<String, Val> { s.scalars.iter().filter(|(k, _)| !k.0.starts_with("temp") && k.0 != "branching_condition").map(|(k, v)| (k.0.clone(), v.clone())).collect() };
                if strip(&rs) != strip(&fs) {
                    acc.violation(format!("C06|final-state-differs|{}", shape), format!("reference {:?} function {:?}", strip(&rs), strip(&fs)), case());
                }
            }
        }
        // every instruction reached by the reference appears in the function, once, with the isolated IL count
        for pc in rt.iter().collect::<BTreeSet<_>>() {
            let len = match starts.get(pc) {
                Some(l) => *l,
                None => continue, // delay-slot half of a MIPS pair
            };
            let off = (*pc - BASE) as usize;
            if let Lifted::Ok(btr) = lifter::lift_block(arch, &bytes[off..off + len], *pc, false) {
                let isolated: usize = btr.instructions().iter().map(|(_, g)| g.blocks().iter().map(|b| b.instructions().len()).sum::<usize>()).sum();
                // the delay-slot nop of a MIPS pair is a separate native instruction for per_addr purposes
                let mut got = per_addr.get(pc).cloned().unwrap_or(0);
                if is_mips && len == 8 {
                    got += per_addr.get(&(pc + 4)).cloned().unwrap_or(0);
                }
                if got != isolated {
                    acc.violation(
                        format!("C06|il-count-differs|{}|{}", if got == 0 { "missing" } else if got > isolated { "duplicated" } else { "lost" }, shape),
                        format!("instruction at {:#x}: {} IL instructions in the function, {} when lifted alone", pc, got, isolated),
                        case(),
                    );
                }
            }
        }
        acc.outcome(&(a.len(), rend.len()));
    }
    // manual edges are present
    if let Some((head, tail, conditional)) = manual_edge {
        // find blocks by address: tail block starts at `tail`, head block is the one whose translation block began at `head`
        let tail_blocks: Vec<usize> = cfg.blocks().iter().filter(|b| b.address() == Some(tail)).map(|b| b.index()).collect();
        let present = cfg.edges().iter().any(|e| tail_blocks.contains(&e.tail()) && (e.condition().is_some() == conditional || !conditional));
        if !present && !tail_blocks.is_empty() && head != tail {
            acc.violation(format!("C06|manual-edge-missing|{}", shape), format!("no edge into the block at {:#x}", tail), case());
        }
    }
    acc.count("nontrivial", 1);
    acc.count("traces", 2);
}

fn archs_family(a: &str) -> &'static str {
    match a {
        "x86" | "amd64" => "x86",
        "mips" | "mipsel" => "mips",
        "ppc" => "ppc",
        _ => "aarch64",
    }
}

fn programs(n: usize, x86: bool) -> Vec<Vec<Ins>> {
    let mut opts: Vec<Ins> = vec![Ins::Inc, Ins::Nop, Ins::Ret];
    for t in 0..n {
        opts.push(Ins::Cond(t));
        opts.push(Ins::Jmp(t));
    }
    if x86 && n >= 2 {
        opts.push(Ins::Ovl);
        for t in 0..n {
            opts.push(Ins::CondMid(t));
            opts.push(Ins::JmpMid(t));
        }
    }
    let mut out: Vec<Vec<Ins>> = vec![vec![]];
    for _ in 0..n {
        out = out.into_iter().flat_map(|p| opts.iter().map(move |o| { let mut q = p.clone(); q.push(*o); q })).collect();
    }
    // overlapping decodes: every mid-instruction branch must point at an `Ovl`, and an `Ovl` is only of interest
    // when some branch enters it in the middle
    out.retain(|p| {
        let mids: Vec<usize> = p.iter().filter_map(|i| match i { Ins::CondMid(t) | Ins::JmpMid(t) => Some(*t), _ => None }).collect();
        let has_ovl = p.iter().any(|i| *i == Ins::Ovl);
        if mids.is_empty() {
            !has_ovl
        } else {
            mids.iter().all(|t| p.get(*t) == Some(&Ins::Ovl))
        }
    });
    out
}

/// x86/amd64: EVERY conditional control transfer (16 short and 16 near jcc, loopne/loope/loop/jcxz) ends its block and
/// gets both successors recovered. `jcc +1; ret; nop; ret`: the target lies behind a `ret`, so it is only ever lifted
/// through the taken edge; the fall-through `ret` only through the other one.
fn check_x86_conditional_opcodes(acc: &mut Acc) {
    let mut encs: Vec<Vec<u8>> = Vec::new();
    for op in (0x70..=0x7fu8).chain(0xe0..=0xe3u8) {
        encs.push(vec![op, 0x01]);
    }
    for op in 0x80..=0x8fu8 {
        encs.push(vec![0x0f, op, 0x01, 0, 0, 0]);
    }
    for arch in ["amd64", "x86"] {
        for enc in &encs {
            acc.count("evaluations", 1);
            let mut bytes = enc.clone();
            let fall = BASE + bytes.len() as u64;
            bytes.extend_from_slice(&[0xc3, 0x90, 0xc3]);
            let target = fall + 1;
            let case = || json!({"arch": arch, "conditional_opcode_bytes": crate::util::hex(&bytes)});
            if !matches!(lifter::lift_block(arch, enc, BASE, false), Lifted::Ok(_)) {
                acc.count("skipped_instruction_does_not_lift_alone", 1);
                continue;
            }
            let image = archs::image(arch, BASE, &bytes);
            let translator = archs::arch(arch).translator();
            let key = |what: &str| format!("C06|conditional-opcode|{}|{}|op={}", what, arch, crate::util::hex(&enc[..enc.len().min(2)]));
            match guarded(|| translator.translate_function_extended(&image, BASE, &Options::new())) {
                Ok(Ok(f)) => {
                    let addrs: BTreeSet<u64> = f.control_flow_graph().blocks().iter().flat_map(|b| b.instructions().iter().filter_map(|i| i.address()).collect::<Vec<_>>()).collect();
                    for (name, a) in [("fall-through", fall), ("target", target)] {
                        if !addrs.contains(&a) {
                            acc.violation(key(&format!("{}-not-recovered", name)), format!("{}: the {} at {:#x} of the conditional transfer at {:#x} is not in the recovered function (addresses {:x?})", crate::util::hex(&bytes), name, a, BASE, addrs), case());
                        }
                    }
                }
                Ok(Err(e)) => acc.violation(key("recovery-error"), format!("translate_function failed ({}), the instruction lifts in isolation", e), case()),
                Err(pn) => acc.violation(key(&format!("recovery-panic:{}", panic_class(&pn))), format!("translate_function panicked: {}", pn), case()),
            }
        }
    }
}

fn run(ctx: &Ctx) -> Acc {
    let mut acc = Acc::new();
    let thorough = ctx.tier.thorough();
    let mut unit = 0u64;
    if ctx.shard == 0 {
        check_x86_conditional_opcodes(&mut acc);
    }
    let arch_list: &[&str] = &["amd64", "x86", "mips", "mipsel", "aarch64", "aarch64eb", "ppc"];
    for arch in arch_list {
        let x86 = *arch == "x86" || *arch == "amd64";
        let nop_size = if x86 { 1 } else { 4 };
        let maxn = if thorough { 4 } else { 3 };
        for n in 1..=maxn {
            if n == 4 && !(*arch == "amd64" || *arch == "mips" || *arch == "aarch64") {
                continue;
            }
            for prog in programs(n, x86) {
                unit += 1;
                if !ctx.mine(unit) {
                    continue;
                }
                ctx.trace(|| format!("{}\t{}", arch, json!({"arch": arch, "prog": prog_json(&prog)})));
                // window offsets 56..=66 for the instruction at fill_pos
                let mut fills: Vec<(usize, usize)> = vec![(0, 0)];
                for pos in 0..n {
                    let (_, addrs, _) = assemble(arch, &prog, usize::MAX, 0);
                    let base_off = (addrs[pos] - BASE) as usize;
                    for w in 56..=66usize {
                        if w >= base_off && (w - base_off) % nop_size == 0 {
                            fills.push((pos, (w - base_off) / nop_size));
                        }
                    }
                }
                if n == 4 {
                    fills.retain(|(_, l)| *l == 0 || (l * nop_size) % 4 == 0);
                }
                for (fill_pos, fill_len) in fills {
                    for entry_idx in 0..2usize.min(n) {
                        for manual in 0..3u8 {
                            if manual > 0 && (fill_len != 0 && !thorough) {
                                continue;
                            }
                            check(&mut acc, &Case { arch: arch.to_string(), prog: prog.clone(), fill_pos, fill_len, entry_idx, manual });
                        }
                    }
                }
            }
        }
    }
    if ctx.shard == 0 {
        acc.sample(Case { arch: "amd64".into(), prog: vec![Ins::Inc, Ins::Cond(0), Ins::Ret], fill_pos: 1, fill_len: 61, entry_idx: 0, manual: 0 }.json());
        acc.sample(Case { arch: "mips".into(), prog: vec![Ins::Cond(2), Ins::Inc, Ins::Ret], fill_pos: 0, fill_len: 14, entry_idx: 0, manual: 0 }.json());
    }
    acc
}

fn replay(case: &Value) -> Acc {
    let mut acc = Acc::new();
    if case.get("conditional_opcode_bytes").is_some() {
        check_x86_conditional_opcodes(&mut acc); // the whole (64-case) table; the case names the failing entry
        return acc;
    }
    check(&mut acc, &Case::parse(case));
    acc
}

#[allow(dead_code)]
fn unused(_: Isa) {}
