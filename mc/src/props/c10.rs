//! C10 — SSA transformation yields valid SSA that preserves behaviour.
use crate::gen::{self, Alphabet, ProgSpec, Succ};
use crate::props::c12;
use crate::refil::{self, Effect, IntrinsicMode, Loc, RState, Step};
use crate::report::{Acc, Describe};
use crate::util::{guarded, panic_class};
use crate::{Ctx, Prop};
use falcon::il::{self, Expression as E};
use falcon::transformation::ssa_transformation;
use serde_json::{json, Value};
use std::collections::{BTreeMap, BTreeSet, HashSet};

pub fn prop() -> Prop {
    Prop {
        id: "C10",
        describe,
        run,
        replay,
        shards: |_| 16,
        timeout_s: |t| if t.thorough() { 3400 } else { 300 },
        mem_limit: 4 << 30,
    }
}

fn describe() -> Describe {
    Describe {
        id: "C10",
        level: "model_checking",
        rule: "every IL function on <=2 blocks (thorough/3-block: see counters) x every filling with <=3 instructions from \
               {x=1, x=y, x=(x+1)&3, x=(x+y)&3, y=x, load x, store x, nop, intrinsic(writes x reads y), intrinsic(undeclared)} x \
               guards on x x every entry (incl. loops through the entry, self-loops, unreachable blocks). Static: same blocks/edges/\
               indices, stripping versions restores the original, every version written exactly once, one phi operand per \
               predecessor (+entry operand on the entry block), every use dominated by its definition (dominance by vertex \
               deletion). Dynamic: original and SSA form explored in lock-step from 9 initial valuations (phi nodes executed in \
               parallel on block entry, selected by incoming edge; loops closed by product-state dedup): same path, same value/\
               address/target at every instruction, no read of an unwritten version.",
        assumptions: vec![
            "reference IL semantics with version-keyed scalars and parallel phi execution written in the harness".into(),
            "scalars an intrinsic declares as written receive the value 2 on both sides".into(),
            "blocks unreachable from the entry are only required to keep their shape".into(),
        ],
        engine: "program enumerator + lock-step product explorer of original and SSA form (16 processes)",
    }
}

fn strip_expr(e: &E) -> E {
    let mut e = e.clone();
    for s in e.scalars_mut() {
        s.set_ssa(None);
    }
    e
}
fn strip_op(op: &il::Operation) -> il::Operation {
    let mut op = op.clone();
    if let Some(v) = op.scalars_read_mut() {
        for s in v {
            s.set_ssa(None);
        }
    }
    if let Some(v) = op.scalars_written_mut() {
        for s in v {
            s.set_ssa(None);
        }
    }
    op
}

fn walk(e: &E, out: &mut Vec<il::Scalar>) {
    match e {
        E::Scalar(s) => out.push(s.clone()),
        E::Constant(_) => {}
        E::Add(a, b) | E::Sub(a, b) | E::Mul(a, b) | E::Divu(a, b) | E::Modu(a, b) | E::Divs(a, b) | E::Mods(a, b) | E::And(a, b) | E::Or(a, b) | E::Xor(a, b) | E::Shl(a, b) | E::Shr(a, b) | E::AShr(a, b) | E::Cmpeq(a, b) | E::Cmpneq(a, b) | E::Cmplts(a, b) | E::Cmpltu(a, b) => {
            walk(a, out);
            walk(b, out);
        }
        E::Zext(_, a) | E::Sext(_, a) | E::Trun(_, a) => walk(a, out),
        E::Ite(a, b, c) => {
            walk(a, out);
            walk(b, out);
            walk(c, out);
        }
    }
}
fn op_read_scalars(op: &il::Operation) -> Vec<il::Scalar> {
    let mut v = Vec::new();
    match op {
        il::Operation::Assign { src, .. } => walk(src, &mut v),
        il::Operation::Store { index, src } => {
            walk(index, &mut v);
            walk(src, &mut v);
        }
        il::Operation::Load { index, .. } => walk(index, &mut v),
        il::Operation::Branch { target } => walk(target, &mut v),
        il::Operation::Intrinsic { intrinsic } => {
            for e in intrinsic.read_expressions().unwrap_or(&[]) {
                walk(e, &mut v);
            }
        }
        il::Operation::Nop { .. } => {}
    }
    v
}
fn op_written_scalars(op: &il::Operation) -> Vec<il::Scalar> {
    let mut v = Vec::new();
    match op {
        il::Operation::Assign { dst, .. } | il::Operation::Load { dst, .. } => v.push(dst.clone()),
        il::Operation::Intrinsic { intrinsic } => {
            for e in intrinsic.written_expressions().unwrap_or(&[]) {
                walk(e, &mut v);
            }
        }
        _ => {}
    }
    v
}

fn check(acc: &mut Acc, spec: &ProgSpec, alpha: &Alphabet) {
    let f = spec.build(alpha, 0x1000);
    let case = || json!({"spec": spec.to_json(alpha)});
    acc.count("evaluations", 1);
    acc.count("programs", 1);
    let n = spec.n();
    // reachability and dominators among blocks (by deletion)
    let succs = |b: usize| -> Vec<usize> { f.edges().iter().filter(|e| e.head() == b).map(|e| e.tail()).collect() };
    let reach_without = |del: Option<usize>| -> Vec<bool> {
        let mut r = vec![false; n];
        if Some(spec.entry) == del {
            return r;
        }
        let mut st = vec![spec.entry];
        while let Some(b) = st.pop() {
            if std::mem::replace(&mut r[b], true) {
                continue;
            }
            for t in succs(b) {
                if Some(t) != del {
                    st.push(t);
                }
            }
        }
        r
    };
    let reach = reach_without(None);
    let dom = |d: usize, v: usize| -> bool { d == v || !reach_without(Some(d))[v] };
    let shape = if reach.iter().all(|r| *r) { "all-reachable" } else { "has-unreachable-block" };
    let g = match guarded(|| ssa_transformation(&f)) {
        Ok(Ok(g)) => g,
        Ok(Err(e)) => {
            acc.violation(format!("C10|error|{}", shape), format!("ssa_transformation failed: {}", e), case());
            return;
        }
        Err(pn) => {
            acc.violation(format!("C10|panic:{}|{}", panic_class(&pn), shape), format!("ssa_transformation panicked: {}", pn), case());
            return;
        }
    };
    // ---------- static
    let fb: Vec<usize> = f.blocks().iter().map(|b| b.index()).collect();
    let gb: Vec<usize> = g.blocks().iter().map(|b| b.index()).collect();
    if fb != gb || f.control_flow_graph().entry() != g.control_flow_graph().entry() {
        acc.violation("C10|structure|blocks-changed", format!("{:?} vs {:?}", fb, gb), case());
        return;
    }
    let fe: Vec<(usize, usize, Option<E>)> = f.edges().iter().map(|e| (e.head(), e.tail(), e.condition().cloned())).collect();
    let ge: Vec<(usize, usize, Option<E>)> = g.edges().iter().map(|e| (e.head(), e.tail(), e.condition().map(strip_expr))).collect();
    if fe != ge {
        acc.violation("C10|structure|edges-changed", format!("{:?} vs {:?}", fe, ge), case());
        return;
    }
    let mut defs: BTreeMap<(String, usize), Vec<(usize, i64)>> = BTreeMap::new(); // version -> (block, position; -1 = phi)
    for b in f.blocks() {
        let gbk = g.block(b.index()).unwrap();
        let fi: Vec<usize> = b.instructions().iter().map(|i| i.index()).collect();
        let gi: Vec<usize> = gbk.instructions().iter().map(|i| i.index()).collect();
        if fi != gi {
            acc.violation("C10|structure|instruction-positions-changed", format!("block {}", b.index()), case());
            return;
        }
        for (x, y) in b.instructions().iter().zip(gbk.instructions()) {
            if *x.operation() != strip_op(y.operation()) {
                acc.violation("C10|structure|operation-changed", format!("`{}` became `{}`", x.operation(), y.operation()), case());
                return;
            }
        }
        for phi in gbk.phi_nodes() {
            if let Some(v) = phi.out().ssa() {
                defs.entry((phi.out().name().to_string(), v)).or_default().push((b.index(), -1));
            } else if reach[b.index()] {
                acc.violation("C10|phi|unversioned-output", format!("block {}: {}", b.index(), phi), case());
            }
        }
        for (pos, ins) in gbk.instructions().iter().enumerate() {
            for w in op_written_scalars(ins.operation()) {
                match w.ssa() {
                    Some(v) => defs.entry((w.name().to_string(), v)).or_default().push((b.index(), pos as i64)),
                    None => {
                        if reach[b.index()] {
                            acc.violation("C10|definition|unversioned-write", format!("block {} `{}`", b.index(), ins.operation()), case());
                        }
                    }
                }
            }
        }
    }
    for (ver, places) in &defs {
        if places.len() != 1 {
            acc.violation("C10|single-assignment|version-written-more-than-once", format!("{}.{} written at {:?}", ver.0, ver.1, places), case());
        }
    }
    // phi operands: exactly one per predecessor, entry operand on the entry block
    for b in g.blocks() {
        if !reach[b.index()] {
            continue;
        }
        let preds: BTreeSet<usize> = g.edges().iter().filter(|e| e.tail() == b.index()).map(|e| e.head()).collect();
        for phi in b.phi_nodes() {
            for p in 0..n {
                if phi.incoming_scalar(p).is_some() != preds.contains(&p) {
                    acc.violation("C10|phi|operands-do-not-match-predecessors", format!("block {}: {} (predecessors {:?})", b.index(), phi, preds), case());
                }
            }
            if (b.index() == spec.entry) != phi.entry_scalar().is_some() {
                acc.violation("C10|phi|entry-operand", format!("block {}: {} (entry block: {})", b.index(), phi, b.index() == spec.entry), case());
            }
        }
    }
    // dominance of uses
    let def_place = |s: &il::Scalar| -> Option<(usize, i64)> { s.ssa().and_then(|v| defs.get(&(s.name().to_string(), v))).and_then(|p| p.first().cloned()) };
    let mut use_bad = |acc: &mut Acc, what: &str, s: &il::Scalar, ub: usize, upos: i64| {
        if s.ssa().is_none() {
            return; // live on entry; checked dynamically
        }
        match def_place(s) {
            None => acc.violation(format!("C10|use|{}-of-undefined-version", what), format!("{} used in block {} has no definition", s, ub), case()),
            Some((db, dpos)) => {
                let ok = if db == ub { dpos < upos } else { dom(db, ub) };
                if !ok {
                    acc.violation(format!("C10|use|{}-not-dominated-by-definition", what), format!("{} used in block {} pos {} but defined in block {} pos {}", s, ub, upos, db, dpos), case());
                }
            }
        }
    };
    for b in g.blocks() {
        if !reach[b.index()] {
            continue;
        }
        for (pos, ins) in b.instructions().iter().enumerate() {
            for s in op_read_scalars(ins.operation()) {
                use_bad(acc, "instruction-read", &s, b.index(), pos as i64);
            }
        }
        for e in g.edges() {
            if e.head() == b.index() {
                if let Some(c) = e.condition() {
                    let mut v = Vec::new();
                    walk(c, &mut v);
                    for s in v {
                        use_bad(acc, "guard-read", &s, b.index(), i64::MAX);
                    }
                }
            }
        }
        for phi in b.phi_nodes() {
            for p in 0..n {
                if let Some(s) = phi.incoming_scalar(p) {
                    if reach[p] {
                        use_bad(acc, "phi-operand", s, p, i64::MAX);
                    }
                }
            }
        }
    }
    // ---------- dynamic
    let mut nphi = 0;
    for b in g.blocks() {
        nphi += b.phi_nodes().len();
    }
    if nphi > 0 {
        acc.count("nontrivial", 1);
        acc.count("programs_with_phi_nodes", 1);
    }
    for init in c12::inits() {
        let mut s1 = init.clone();
        let mut s2 = init.clone();
        s2.versioned = true;
        let mut loc = match Loc::entry(&f) {
            Ok(l) => l,
            Err(_) => return,
        };
        if let Err(fl) = refil::apply_phis(&g, spec.entry, None, &mut s2) {
            acc.violation("C10|run|phi-entry-fault", format!("{:?}", fl), case());
            continue;
        }
        let mut seen: HashSet<(Loc, RState, RState)> = HashSet::new();
        loop {
            if !seen.insert((loc.clone(), s1.clone(), s2.clone())) {
                break;
            }
            acc.count("states", 1);
            let op2 = loc.instruction(&g).map(|i| i.operation().clone());
            let st1 = refil::step(&f, &loc, &mut s1, IntrinsicMode::Havoc(2));
            if let Step::Fault(_) = st1 {
                acc.count("original_runs_pruned_by_fault", 1);
                break;
            }
            let st2 = refil::step(&g, &loc, &mut s2, IntrinsicMode::Havoc(2));
            acc.count("transitions", 1);
            let where_ = match &loc {
                Loc::Edge { .. } => "at-edge(phi)",
                Loc::Empty { .. } => "at-empty-block",
                Loc::Instr { .. } => "at-instruction",
            };
            let same_effect = |a: &Effect, b: &Effect| -> bool {
                match (a, b) {
                    (Effect::Assign { key: k1, value: v1 }, Effect::Assign { key: k2, value: v2 }) => k1.0 == k2.0 && v1 == v2,
                    (Effect::Load { key: k1, addr: a1, value: v1 }, Effect::Load { key: k2, addr: a2, value: v2 }) => k1.0 == k2.0 && a1 == a2 && v1 == v2,
                    _ => a == b,
                }
            };
            match (st1, st2) {
                (_, Step::Fault(fl)) => {
                    acc.violation(
                        format!("C10|run|ssa-faults-{}|{}", fl.class(), where_),
                        format!("at {:?} (`{}`): SSA form faults with {:?} although the original runs", loc, op2.map(|o| format!("{}", o)).unwrap_or_default(), fl),
                        case(),
                    );
                    break;
                }
                (Step::Next(l1, e1), Step::Next(l2, e2)) => {
                    if !same_effect(&e1, &e2) {
                        acc.violation(format!("C10|run|value-differs|{}", where_), format!("at {:?}: original {:?} SSA {:?}", loc, e1, e2), case());
                        break;
                    }
                    if l1 != l2 {
                        acc.violation("C10|run|path-differs", format!("after {:?}: original goes to {:?}, SSA to {:?}", loc, l1, l2), case());
                        break;
                    }
                    loc = l1;
                }
                (Step::Halt(e1), Step::Halt(e2)) => {
                    if !same_effect(&e1, &e2) {
                        acc.violation(format!("C10|run|value-differs|{}", where_), format!("at {:?}: original {:?} SSA {:?}", loc, e1, e2), case());
                    }
                    break;
                }
                (Step::Branch(t1), Step::Branch(t2)) => {
                    if t1 != t2 {
                        acc.violation("C10|run|branch-target-differs", format!("{:#x} vs {:#x}", t1, t2), case());
                    }
                    break;
                }
                (a, b) => {
                    acc.violation("C10|run|step-kind-differs", format!("original {:?} SSA {:?}", a, b), case());
                    break;
                }
            }
        }
    }
    acc.count("traces", 9);
    acc.outcome(&format!("{}", g.control_flow_graph()));
}

fn run(ctx: &Ctx) -> Acc {
    let mut acc = Acc::new();
    let alpha = c12::alphabet();
    for (ci, cfg) in c12::gen_cfgs(ctx.tier.thorough(), alpha.ops.len()).iter().enumerate() {
        gen::for_each(cfg, |n, spec| {
            if ci >= 1 && spec.n() < 3 {
                return true;
            }
            if !ctx.mine(n) {
                return true;
            }
            ctx.trace(|| format!("prog\t{}", json!({"spec": spec.to_json(&alpha)})));
            check(&mut acc, spec, &alpha);
            true
        });
    }
    if ctx.shard == 0 {
        let spec = ProgSpec { entry: 0, exit: None, succ: vec![Succ::Two(1, 0, 0), Succ::None], blocks: vec![vec![2], vec![4]] };
        acc.sample(json!({"spec": spec.to_json(&alpha), "note": "self-loop through the entry: phi with entry operand"}));
    }
    acc
}

fn replay(case: &Value) -> Acc {
    let mut acc = Acc::new();
    check(&mut acc, &ProgSpec::from_json(&case["spec"]), &c12::alphabet());
    acc
}
