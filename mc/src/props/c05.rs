//! C05 — lifting any bytes is total and yields well-formed, deterministic IL.
use crate::archs;
use crate::lifter::{self, Lifted};
use crate::report::{Acc, Describe};
use crate::util::{last_panic_file, panic_class};
use crate::x86gen;
use crate::{Ctx, Prop};
use falcon_capstone::capstone;
use serde_json::{json, Value};

pub fn prop() -> Prop {
    Prop {
        id: "C05",
        describe,
        run,
        replay,
        shards: |_| 16,
        timeout_s: |t| if t.thorough() { 3400 } else { 300 },
        mem_limit: 4 << 30,
    }
}

fn describe() -> Describe {
    Describe {
        id: "C05",
        level: "exploration",
        rule: "exhaustive structured grids per translator, both unsupported-instruction policies: x86/amd64 byte grammar \
               [prefix incl. LOCK/segment/67][REX][every 1-byte and 0F opcode, 0F38/0F3A rows][ModRM(+SIB) forms][5 displacement/\
               immediate patterns] plus every proper prefix of a string and 15-byte over-long strings, at 4 load addresses for \
               relative-branch opcodes; MIPS/MIPSel opcode x rs x rt(all 32) x rd x sa x funct word grid plus every branch word \
               followed by 16 delay-slot candidates at buffer lengths 4/8/60/64; PPC primary x extended opcode x register x Rc/LK \
               grid; AArch64/Eb bits[31:21] x bits[15:10] x Rm/Rn/Rd grid (thorough: all 2^32 words for aarch64). Every Ok result is \
               checked by an independent validator (expression sorts, operation widths, entry/exit, guards exactly-one-enabled under \
               all valuations) and lifted twice for determinism. Non-trivial = case that lifted to Ok.",
        assumptions: vec![
            "validator written in the harness; guard exclusivity is decided over all values of 1-bit scalars and a 7-value boundary alphabet of wider ones".into(),
            "an unsupported instruction may be an error or an intrinsic under either policy; what is not allowed is a panic".into(),
            "workers run under a wall-clock limit: a hang is attributed to the case being lifted".into(),
        ],
        engine: "grid enumerator (16 worker processes, abort/hang attribution by trace mode)",
    }
}

fn family(arch: &str) -> &'static str {
    match arch {
        "x86" | "amd64" => "x86",
        "mips" | "mipsel" => "mips",
        "ppc" => "ppc",
        _ => "aarch64",
    }
}

pub fn mnemonic(arch: &str, bytes: &[u8], addr: u64) -> String {
    match family(arch) {
        "aarch64" => {
            if bytes.len() < 4 {
                return "short".into();
            }
            let w = u32::from_le_bytes([bytes[0], bytes[1], bytes[2], bytes[3]]);
            match bad64::decode(w, addr) {
                Ok(i) => {
                    let kinds: Vec<String> = i
                        .operands()
                        .iter()
                        .map(|o| {
                            let s = format!("{:?}", o);
                            s.split(|c: char| !c.is_alphanumeric()).next().unwrap_or("").to_string()
                        })
                        .collect();
                    format!("{:?}({})", i.op(), kinds.join(","))
                }
                Err(_) => "undecodable".into(),
            }
        }
        fam => {
            let (a, m) = match (fam, arch) {
                ("x86", "x86") => (capstone::cs_arch::CS_ARCH_X86, capstone::CS_MODE_32),
                ("x86", _) => (capstone::cs_arch::CS_ARCH_X86, capstone::CS_MODE_64),
                ("mips", "mips") => (capstone::cs_arch::CS_ARCH_MIPS, capstone::CS_MODE_32 | capstone::CS_MODE_BIG_ENDIAN),
                ("mips", _) => (capstone::cs_arch::CS_ARCH_MIPS, capstone::CS_MODE_32 | capstone::CS_MODE_LITTLE_ENDIAN),
                _ => (capstone::cs_arch::CS_ARCH_PPC, capstone::CS_MODE_32 | capstone::CS_MODE_BIG_ENDIAN),
            };
            match capstone::Capstone::new(a, m) {
                Ok(cs) => match cs.disasm(bytes, addr, 1) {
                    Ok(ins) if ins.count() > 0 => ins.get(0).unwrap().mnemonic.clone(),
                    _ => "undecodable".into(),
                },
                Err(_) => "capstone-error".into(),
            }
        }
    }
}

fn hex(b: &[u8]) -> String {
    b.iter().map(|x| format!("{:02x}", x)).collect()
}
fn unhex(s: &str) -> Vec<u8> {
    (0..s.len() / 2).map(|i| u8::from_str_radix(&s[2 * i..2 * i + 2], 16).unwrap()).collect()
}

pub fn check_case(acc: &mut Acc, arch: &str, bytes: &[u8], addr: u64, intrinsics: bool) {
    acc.count("evaluations", 1);
    let case = || json!({"arch": arch, "bytes": hex(bytes), "address": addr, "intrinsics": intrinsics});
    match lifter::lift_block(arch, bytes, addr, intrinsics) {
        Lifted::Panic(p) => {
            let file = last_panic_file();
            acc.violation(
                format!("C05|{}|panic|{}|{}|{}", family(arch), file, panic_class(&p), mnemonic(arch, bytes, addr)),
                format!("{}: lifting {} at {:#x} panicked: {}", arch, hex(bytes), addr, p),
                case(),
            );
        }
        Lifted::Err(_) => {
            acc.count("lift_errors", 1);
        }
        Lifted::Ok(btr) => {
            acc.count("nontrivial", 1);
            let bad = lifter::validate(&btr, arch);
            for (class, what, at) in bad {
                // attribute to the native instruction the offending IL belongs to
                let at = at.unwrap_or(addr);
                let at = if family(arch) == "mips" && at % 4 == 1 { at - 1 } else { at };
                let off = at.wrapping_sub(addr) as usize;
                let m = if off < bytes.len() { mnemonic(arch, &bytes[off..], at) } else { mnemonic(arch, bytes, addr) };
                acc.violation(format!("C05|{}|{}|{}", family(arch), class, m), format!("{}: {} ({})", arch, what, hex(bytes)), case());
            }
            match lifter::lift_block(arch, bytes, addr, intrinsics) {
                Lifted::Ok(b2) => {
                    if !lifter::same(&btr, &b2) {
                        acc.violation(format!("C05|{}|nondeterministic|{}", family(arch), mnemonic(arch, bytes, addr)), format!("{}: two liftings of {} differ", arch, hex(bytes)), case());
                    }
                }
                _ => acc.violation(format!("C05|{}|nondeterministic|{}", family(arch), mnemonic(arch, bytes, addr)), format!("{}: second lifting of {} failed", arch, hex(bytes)), case()),
            }
            acc.outcome(&(btr.instructions().len(), btr.successors().len(), btr.length(), btr.instructions().first().map(|(_, g)| g.blocks().len())));
        }
    }
}

fn word_bytes(arch: &str, w: u32) -> [u8; 4] {
    match arch {
        "mips" | "ppc" => w.to_be_bytes(),
        _ => w.to_le_bytes(),
    }
}

const ADDRS: [u64; 4] = [0x1000, 0, 0xFFFF_FFF0, 0xFFFF_FFFF_FFFF_FFF0];

fn run(ctx: &Ctx) -> Acc {
    let mut acc = Acc::new();
    let thorough = ctx.tier.thorough();
    let mut unit = 0u64;
    let mut mine = |u: &mut u64| {
        *u += 1;
        ctx.mine(*u)
    };
    // ---------------- x86 / amd64
    for arch in ["x86", "amd64"] {
        let mode64 = arch == "amd64";
        let tails: Vec<u8> = if thorough { vec![0, 1, 2, 3, 4] } else { vec![1, 4] };
        let mut take = false;
        x86gen::for_each(mode64, thorough, true, &tails, |n, e| {
            // work unit = 64 consecutive encodings
            if n % 64 == 0 {
                take = mine(&mut unit);
            }
            if !take {
                return;
            }
            let bytes = e.bytes();
            ctx.trace(|| format!("{}\t{}", arch, json!({"arch": arch, "bytes": hex(&bytes), "address": 4096, "intrinsics": false})));
            for intr in [false, true] {
                check_case(&mut acc, arch, &bytes, ADDRS[0], intr);
            }
            // relative control flow and rip-relative operands at the other load addresses
            let op = &e.opcode;
            let rel = matches!(op[0], 0xe0..=0xe3 | 0xe8 | 0xe9 | 0xeb | 0x70..=0x7f) || (op.len() == 2 && op[0] == 0x0f && (0x80..=0x8f).contains(&op[1])) || (e.modrm & 0xc7) == 0x05;
            if rel && (e.tail == 1 || e.tail == 4) {
                for a in &ADDRS[1..] {
                    check_case(&mut acc, arch, &bytes, *a, false);
                }
            }
            // truncated strings: every proper prefix
            if e.tail == 1 && matches!(e.modrm, 0xc0 | 0x04 | 0x05 | 0x80) && e.prefix.len() <= 1 {
                let head = e.head();
                let mut full = head.clone();
                full.extend_from_slice(&x86gen::TAILS[1]);
                for len in 1..full.len() {
                    check_case(&mut acc, arch, &full[..len], ADDRS[0], false);
                }
            }
        });
        // over-long strings: 14 prefixes + opcode
        if mine(&mut unit) {
            for p in [0x66u8, 0xf3, 0x2e, 0x67, 0x40] {
                for op in [0x90u8, 0x01, 0xc3, 0xeb] {
                    let mut b = vec![p; 14];
                    b.push(op);
                    b.extend_from_slice(&[0xc0, 0xc3, 0xc3]);
                    for intr in [false, true] {
                        check_case(&mut acc, arch, &b, ADDRS[0], intr);
                    }
                    let mut b = vec![p; 15];
                    b.push(op);
                    check_case(&mut acc, arch, &b, ADDRS[0], false);
                }
            }
            check_case(&mut acc, arch, &[], ADDRS[0], false);
        }
    }
    // ---------------- MIPS / MIPSel
    let regs3: [u32; 3] = [0, 1, 31];
    for arch in ["mips", "mipsel"] {
        for op in 0..64u32 {
            for rt in 0..32u32 {
                if !mine(&mut unit) {
                    continue;
                }
                ctx.trace(|| format!("{}-op{}-rt{}\t\"grid\"", arch, op, rt));
                for rs in regs3 {
                    for rd in regs3 {
                        for sa in regs3 {
                            let functs: Vec<u32> = if thorough || op == 0 || op == 0x1c || op == 0x1f { (0..64).collect() } else { vec![0, 1, 0x20, 0x3f] };
                            for funct in functs {
                                let w = (op << 26) | (rs << 21) | (rt << 16) | (rd << 11) | (sa << 6) | funct;
                                let b = word_bytes(arch, w);
                                for intr in [false, true] {
                                    check_case(&mut acc, arch, &b, ADDRS[0], intr);
                                }
                            }
                        }
                    }
                }
            }
        }
        // branches followed by delay-slot candidates, at the look-ahead edge
        let branches: Vec<u32> = vec![
            0x10000003, 0x1000ffff, 0x11090002, 0x15090002, 0x05010002, 0x05110002, 0x1d000002, 0x19000002, 0x05000002, 0x05100002, 0x08000400, 0x0c000400, 0x03e00008, 0x0320f809, 0x03e0f809, 0x45010002, 0x51090002,
        ];
        let slots: Vec<u32> = vec![
            0, 0x27bdffe0, 0x8fbf001c, 0xafbf001c, 0x03e00008, 0x10000001, 0x0c000400, 0x0000000d, 0x0000000c, 0x3c1f1234, 0x00000034, 0x70a62002, 0x7c03e83b, 0xffffffff, 0x0109001a, 0x24190008,
        ];
        for (bi, br) in branches.iter().enumerate() {
            if !mine(&mut unit) {
                continue;
            }
            ctx.trace(|| format!("{}-branch{}\t\"delay\"", arch, bi));
            for sl in &slots {
                for total in [4usize, 8, 12, 60, 64] {
                    // the pair sits at the END of the buffer so the delay slot is complete, cut, or absent
                    for cut in [0usize, 4] {
                        let mut buf: Vec<u8> = Vec::new();
                        let pad = (total.saturating_sub(8 - cut)) / 4;
                        for _ in 0..pad {
                            buf.extend_from_slice(&word_bytes(arch, 0));
                        }
                        buf.extend_from_slice(&word_bytes(arch, *br));
                        if cut == 0 {
                            buf.extend_from_slice(&word_bytes(arch, *sl));
                        }
                        for intr in [false, true] {
                            check_case(&mut acc, arch, &buf, ADDRS[0], intr);
                        }
                    }
                }
                let mut pair = word_bytes(arch, *br).to_vec();
                pair.extend_from_slice(&word_bytes(arch, *sl));
                for a in &ADDRS[1..3] {
                    check_case(&mut acc, arch, &pair, *a, false);
                }
                // odd lengths
                check_case(&mut acc, arch, &pair[..6], ADDRS[0], false);
                check_case(&mut acc, arch, &pair[..3], ADDRS[0], false);
            }
        }
    }
    // ---------------- PPC
    for op in 0..64u32 {
        for xo_hi in 0..32u32 {
            if !mine(&mut unit) {
                continue;
            }
            ctx.trace(|| format!("ppc-op{}-xo{}\t\"grid\"", op, xo_hi));
            for xo_lo in 0..32u32 {
                let xo = (xo_hi << 5) | xo_lo;
                let regsets: &[(u32, u32, u32)] = if thorough { &[(0, 0, 0), (1, 2, 3), (31, 31, 31), (3, 0, 4), (0, 1, 0), (12, 20, 4)] } else { &[(0, 0, 0), (1, 2, 3), (31, 31, 31), (3, 0, 4)] };
                for (rd, ra, rb) in regsets {
                    for rc in 0..2u32 {
                        let w = (op << 26) | (rd << 21) | (ra << 16) | (rb << 11) | (xo << 1) | rc;
                        let b = word_bytes("ppc", w);
                        for intr in [false, true] {
                            check_case(&mut acc, "ppc", &b, ADDRS[0], intr);
                        }
                    }
                }
            }
        }
    }
    if mine(&mut unit) {
        for w in [0x4e800020u32, 0x4e800421, 0x48000001, 0x4bfffffc, 0x41820008, 0x4200fff8, 0x7c0802a6, 0x7c0803a6] {
            let b = word_bytes("ppc", w);
            for a in ADDRS {
                check_case(&mut acc, "ppc", &b, a, false);
            }
            check_case(&mut acc, "ppc", &b[..2], ADDRS[0], false);
            let mut two = b.to_vec();
            two.extend_from_slice(&b);
            check_case(&mut acc, "ppc", &two, ADDRS[0], true);
        }
    }
    // ---------------- AArch64 / AArch64Eb
    let r4: [u32; 4] = [0, 1, 30, 31];
    for arch in ["aarch64", "aarch64eb"] {
        for hi in 0..2048u32 {
            if !mine(&mut unit) {
                continue;
            }
            ctx.trace(|| format!("{}-hi{}\t\"grid\"", arch, hi));
            let step = if thorough { 1 } else { 3 };
            for mid in (0..64u32).step_by(step) {
                for rm in r4 {
                    for rn in r4 {
                        for rd in r4 {
                            let w = (hi << 21) | (rm << 16) | (mid << 10) | (rn << 5) | rd;
                            let b = w.to_le_bytes();
                            for intr in [false, true] {
                                check_case(&mut acc, arch, &b, ADDRS[0], intr);
                            }
                        }
                    }
                }
            }
        }
        if mine(&mut unit) {
            for w in [0x14000001u32, 0x97ffffff, 0x54000040, 0xd61f0000, 0xd63f03c0, 0xd65f03c0, 0xb4000040, 0x36000040, 0x58000040, 0x18ffffe0, 0x10000000] {
                let b = w.to_le_bytes();
                for a in ADDRS {
                    check_case(&mut acc, arch, &b, a, false);
                }
                check_case(&mut acc, arch, &b[..3], ADDRS[0], false);
            }
        }
    }
    // thorough: the whole 32-bit space for aarch64 (the decoder and lifter are fast)
    if thorough {
        let chunk = 1u64 << 16;
        for c in 0..(1u64 << 16) {
            if !mine(&mut unit) {
                continue;
            }
            ctx.trace(|| format!("aarch64-full-chunk{}\t\"full\"", c));
            for lo in 0..chunk {
                let w = ((c << 16) | lo) as u32;
                check_case(&mut acc, "aarch64", &w.to_le_bytes(), ADDRS[0], (w & 1) == 0);
            }
        }
        acc.note("aarch64: all 2^32 instruction words lifted");
    }
    if ctx.shard == 0 {
        acc.sample(json!({"arch": "amd64", "bytes": "4801c3c3", "address": 4096, "intrinsics": false}));
        acc.sample(json!({"arch": "mips", "bytes": "1109000227bdffe0", "address": 4096, "intrinsics": true}));
        acc.sample(json!({"arch": "aarch64", "bytes": hex(&0x58000040u32.to_le_bytes()), "address": 4096, "intrinsics": false}));
    }
    acc
}

fn replay(case: &Value) -> Acc {
    let mut acc = Acc::new();
    let arch = case["arch"].as_str().unwrap_or("x86").to_string();
    let _ = archs::arch(&arch);
    let bytes = unhex(case["bytes"].as_str().unwrap_or(""));
    check_case(&mut acc, &arch, &bytes, case["address"].as_u64().unwrap_or(0x1000), case["intrinsics"].as_bool().unwrap_or(false));
    acc
}
