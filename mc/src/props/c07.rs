//! C07 — the concrete executor implements the IL operational semantics exactly.
use crate::bv::Val;
use crate::gen::{self, Alphabet, GenCfg, ProgSpec, Succ};
use crate::refil::{self, End, Fault, IntrinsicMode, Loc, RState, Step};
use crate::report::{Acc, Describe};
use crate::util::{guarded, panic_class};
use crate::{Ctx, Prop};
use falcon::architecture::{Amd64, Architecture, Endian};
use falcon::executor::{Driver, Memory, State};
use falcon::il::{self, Expression as E};
use falcon::memory::MemoryPermissions as P;
use falcon::{Error, RC};
use serde_json::{json, Value};
use std::collections::HashSet;

pub fn prop() -> Prop {
    Prop {
        id: "C07",
        describe,
        run,
        replay,
        shards: |_| 16,
        timeout_s: |t| if t.thorough() { 3400 } else { 300 },
        mem_limit: 4 << 30,
    }
}

fn describe() -> Describe {
    Describe {
        id: "C07",
        level: "model_checking",
        rule: "every IL function on <=2 blocks (all successor shapes incl. self-loops, single conditional edges, non-exhaustive guard \
               pairs; thorough adds 3 blocks with three-way guards) x every distribution of <=2 (thorough 3) instructions from a \
               23-operation alphabet (assign/copy/add/zext/trun, overlapping 8..64-bit stores and loads, nop, intrinsic, indirect \
               branches to an existing instruction / liftable code / unmapped, division by a possibly-zero scalar, read of an \
               undefined scalar) x both endiannesses x 9 initial scalar valuations x {empty, pre-filled} memory. Each run steps \
               executor::Driver and the reference interpreter in lock-step: location, every scalar and the memory window are compared \
               after every step, error classes must correspond, loops are closed by (location,state) dedup. \
               states = distinct product states, transitions = lock-step steps; non-trivial = run with at least one step.",
        assumptions: vec![
            "reference IL semantics written in the harness (refil), values cross-checked against native arithmetic".into(),
            "programs with overlapping (non-exclusive) guards are not generated".into(),
            "the end of a block without successors is reported by the executor as ExecutorNoValidLocation; this is accepted as termination".into(),
            "code lifted on demand at an indirect branch target is taken from the driver's program and executed by both sides (lifting itself is C01/C06)".into(),
        ],
        engine: "program enumerator + lock-step product explorer (16 processes)",
    }
}

const BASE: u64 = 0x5000;
const CODE: u64 = 0x2000;

fn alphabet() -> Alphabet {
    let a = || il::scalar("a", 8);
    let b = || il::scalar("b", 8);
    let w = || il::scalar("w", 16);
    let q = || il::scalar("q", 64);
    let ea = || E::scalar(a());
    let eb = || E::scalar(b());
    let ew = || E::scalar(w());
    let c = |v: u64, bits: usize| il::expr_const(v, bits);
    let ops = vec![
        il::Operation::assign(a(), c(1, 8)),
        il::Operation::assign(a(), eb()),
        il::Operation::assign(a(), E::and(E::add(ea(), eb()).unwrap(), c(0x81, 8)).unwrap()),
        il::Operation::assign(w(), E::zext(16, ea()).unwrap()),
        il::Operation::assign(a(), E::trun(8, ew()).unwrap()),
        il::Operation::store(c(0x100, 64), ea()),
        il::Operation::store(c(0x100, 64), ew()),
        il::Operation::store(c(0x101, 64), ew()),
        il::Operation::load(q(), c(0x100, 64)),
        il::Operation::load(w(), c(0x101, 64)),
        il::Operation::load(a(), c(0x100, 64)),
        il::Operation::store(c(0x100, 64), E::zext(32, ew()).unwrap()),
        il::Operation::store(c(0x101, 64), E::scalar(q())),
        il::Operation::nop(),
        il::Operation::intrinsic(il::Intrinsic::new("cpuid", "cpuid", vec![], None, None, vec![0x0f, 0xa2])),
        // intrinsics that DECLARE what they write (nothing / one scalar): still not executable
        il::Operation::intrinsic(il::Intrinsic::new("syscall", "syscall", vec![], Some(vec![]), Some(vec![]), vec![0x0f, 0x05])),
        il::Operation::intrinsic(il::Intrinsic::new("rdtsc", "rdtsc", vec![], Some(vec![E::scalar(il::scalar("a", 8))]), Some(vec![]), vec![0x0f, 0x31])),
        il::Operation::branch(c(BASE + 1, 64)),
        il::Operation::branch(c(CODE, 64)),
        il::Operation::branch(c(0x9000, 64)),
        il::Operation::assign(a(), E::divu(ea(), eb()).unwrap()),
        il::Operation::assign(a(), E::scalar(il::scalar("u", 8))),
        il::Operation::assign(b(), E::xor(eb(), c(1, 8)).unwrap()),
        // a placeholder no-op wraps an operation that must NOT execute
        il::Operation::placeholder(il::Operation::assign(a(), c(0x55, 8))),
    ];
    let guards = vec![
        (E::cmpeq(eb(), c(0, 8)).unwrap(), E::cmpneq(eb(), c(0, 8)).unwrap()),
        // neither holds when b >= 2
        (E::cmpeq(eb(), c(0, 8)).unwrap(), E::cmpeq(eb(), c(1, 8)).unwrap()),
        // neither can be evaluated: `u` is never defined (an error must be reported, and it must be that error)
        (E::cmpeq(E::scalar(il::scalar("u", 8)), c(0, 8)).unwrap(), E::cmpneq(E::scalar(il::scalar("u", 8)), c(0, 8)).unwrap()),
    ];
    let guards3 = vec![
        E::cmpeq(eb(), c(0, 8)).unwrap(),
        E::cmpeq(eb(), c(1, 8)).unwrap(),
        E::cmpltu(c(1, 8), eb()).unwrap(),
    ];
    Alphabet { ops, guards, guards3 }
}

const NAMES: [(&str, usize); 5] = [("a", 8), ("b", 8), ("w", 16), ("q", 64), ("u", 8)];

#[derive(Clone, Debug)]
struct Init {
    big: bool,
    a: u64,
    b: u64,
    prefilled: bool,
}

fn inits(thorough: bool) -> Vec<Init> {
    let mut v = Vec::new();
    for big in [false, true] {
        for a in if thorough { vec![0u64, 1, 0xFF] } else { vec![1u64, 0xFF] } {
            for b in [0u64, 1, 2] {
                for prefilled in [false, true] {
                    v.push(Init { big, a, b, prefilled });
                }
            }
        }
    }
    v
}

fn build_states(init: &Init) -> (State, RState) {
    let endian = if init.big { Endian::Big } else { Endian::Little };
    let mut mem = Memory::new(endian);
    let mut r = RState::new(if init.big { End::Big } else { End::Little });
    // liftable code: nop; nop; ret
    mem.set_permissions(CODE, 16, P::ALL);
    for (i, byte) in [0x90u8, 0x90, 0xc3].iter().enumerate() {
        mem.store(CODE + i as u64, il::const_(*byte as u64, 8)).unwrap();
        r.mem.insert(CODE + i as u64, *byte);
    }
    if init.prefilled {
        for i in 0..10u64 {
            let byte = 0xC0 + i;
            mem.store(0x100 + i, il::const_(byte, 8)).unwrap();
            r.mem.insert(0x100 + i, byte as u8);
        }
    }
    let mut s = State::new(mem);
    for (name, v, bits) in [("a", init.a, 8usize), ("b", init.b, 8), ("w", 0x1234, 16), ("q", 0x1122334455667788, 64)] {
        s.set_scalar(name, il::const_(v, bits));
        r.set(name, Val::new(v as u128, bits));
    }
    (s, r)
}

fn err_class(e: &Error) -> &'static str {
    match e {
        Error::ExecutorScalar(_) => "undefined-scalar",
        Error::ExecutorInvalidAddress => "unmapped",
        Error::DivideByZero => "div-zero",
        Error::UnhandledIntrinsic(_) => "intrinsic",
        Error::ExecutorNoValidLocation | Error::ExecutorNoEdgeCondition => "no-guard",
        Error::ExecutorLiftFail(..) => "lift-fail",
        Error::Sort => "sort",
        _ => "other-error",
    }
}

/// Compare the observable state of the two sides.
fn states_differ(d: &Driver, r: &RState) -> Option<String> {
    for (name, _) in NAMES {
        let real = d.state().get_scalar(name).map(refil::const_val);
        let reference = r.get(name).cloned();
        if real != reference {
            return Some(format!("scalar {}: executor {:?} reference {:?}", name, real, reference));
        }
    }
    for a in 0xFE..0x10C {
        let real = match guarded(|| d.state().memory().load(a, 8)) {
            Ok(Ok(v)) => v.map(|c| c.value_u64().unwrap_or(999) as u8),
            _ => return Some(format!("memory load at {:#x} failed", a)),
        };
        if real != r.mem.get(&a).cloned() {
            return Some(format!("memory[{:#x}]: executor {:?} reference {:?}", a, real, r.mem.get(&a)));
        }
    }
    None
}

fn check_run(acc: &mut Acc, spec: &ProgSpec, alpha: &Alphabet, init: &Init, twice: bool) {
    let f = spec.build(alpha, BASE);
    let mut program = il::Program::new();
    program.add_function(f);
    let program = RC::new(program);
    let (state, mut r) = build_states(init);
    let case = || json!({"spec": spec.to_json(alpha), "init": {"big": init.big, "a": init.a, "b": init.b, "prefilled": init.prefilled}});
    let f0 = program.function(0).unwrap();
    let mut loc = match Loc::entry(f0) {
        Ok(l) => l,
        Err(_) => return,
    };
    let mut fidx = 0usize;
    let arch: RC<dyn Architecture> = RC::new(Amd64::new());
    let ploc = il::ProgramLocation::new(Some(0), loc.to_falcon(f0).unwrap());
    let mut d = Driver::new(program.clone(), ploc, state, arch);
    let mut seen: HashSet<(usize, Loc, RState)> = HashSet::new();
    acc.count("evaluations", 1);
    let mut steps = 0u64;
    let mut trace: Vec<String> = Vec::new();
    let shape_class = |loc: &Loc, f: &il::Function| -> String {
        // classify the out-edge situation at the point of divergence (keeps finding keys narrow)
        let block = match loc {
            Loc::Instr { block, .. } | Loc::Empty { block } => *block,
            Loc::Edge { head, .. } => *head,
        };
        let edges = f.control_flow_graph().edges_out(block).map(|e| e.len()).unwrap_or(0);
        let cond = f.control_flow_graph().edges_out(block).map(|e| e.iter().filter(|x| x.condition().is_some()).count()).unwrap_or(0);
        format!("out-edges={},conditional={}", edges, cond)
    };
    loop {
        // observable equality before the step
        let prog = d.program().clone();
        let f = match prog.function(fidx) {
            Some(f) => f,
            None => {
                acc.violation("C07|location|function-missing|-", "function index vanished", case());
                return;
            }
        };
        let expect_loc = il::ProgramLocation::new(Some(fidx), loc.to_falcon(f).unwrap());
        if *d.location() != expect_loc {
            acc.violation(
                format!("C07|location|mismatch|{}", shape_class(&loc, f)),
                format!("after {} steps executor at {} reference at {} (trace {:?})", steps, d.location(), expect_loc, trace),
                case(),
            );
            return;
        }
        if let Some(diff) = states_differ(&d, &r) {
            let opname = trace.last().cloned().unwrap_or_default();
            acc.violation(format!("C07|state|mismatch|after:{}", opname), format!("after {} steps: {} (trace {:?})", steps, diff, trace), case());
            return;
        }
        if !seen.insert((fidx, loc.clone(), r.clone())) {
            acc.count("lassos_closed", 1);
            break;
        }
        acc.count("states", 1);
        if steps >= 700 {
            acc.cap("C07: run cut at 700 steps");
            break;
        }
        let op_text = loc.instruction(f).map(|i| format!("{}", i.operation())).unwrap_or_else(|| format!("{:?}", loc));
        let real = guarded(|| d.clone().step());
        let reference = refil::step(f, &loc, &mut r, IntrinsicMode::Fault);
        steps += 1;
        acc.count("transitions", 1);
        trace.push(op_text.clone());
        if trace.len() > 12 {
            trace.remove(0);
        }
        let sc = shape_class(&loc, f);
        let opkind = op_text.split_whitespace().next().unwrap_or("").to_string();
        match (real, reference) {
            (Err(pn), _) => {
                acc.violation(format!("C07|step|panic:{}|{}", panic_class(&pn), sc), format!("Driver::step panicked at `{}`: {}", op_text, pn), case());
                return;
            }
            (Ok(Ok(nd)), Step::Next(nl, _)) => {
                d = nd;
                loc = nl;
            }
            (Ok(Ok(nd)), Step::Branch(t)) => {
                // the executor found or lifted a location for address t
                let np = nd.program().clone();
                let target = il::RefProgramLocation::from_address(&np, t);
                // reference rule: the instruction carrying address t, if the original program has one
                let in_prog = f.blocks().iter().any(|b| b.instructions().iter().any(|i| i.address() == Some(t)));
                let mapped = r.mem.contains_key(&t);
                if !in_prog && !mapped {
                    acc.violation("C07|branch|ok-on-unmapped-target|-", format!("branch to unmapped {:#x} succeeded at {}", t, nd.location()), case());
                    return;
                }
                match target {
                    Some(tl) => {
                        let pl: il::ProgramLocation = tl.clone().into();
                        if *nd.location() != pl || tl.address() != Some(t) {
                            acc.violation("C07|branch|wrong-target|-", format!("branch to {:#x} landed at {}", t, nd.location()), case());
                            return;
                        }
                        fidx = tl.function().index().unwrap();
                        let nf = np.function(fidx).unwrap();
                        let (bi, ii) = match pl.function_location() {
                            il::FunctionLocation::Instruction(b, i) => (*b, *i),
                            _ => {
                                acc.violation("C07|branch|wrong-target|-", "branch target is not an instruction", case());
                                return;
                            }
                        };
                        let pos = nf.block(bi).unwrap().instructions().iter().position(|i| i.index() == ii).unwrap();
                        loc = Loc::Instr { block: bi, pos };
                        if fidx != 0 {
                            acc.count("on_demand_lifts", 1);
                        }
                        d = nd;
                    }
                    None => {
                        acc.violation("C07|branch|wrong-target|-", format!("branch to {:#x}: no instruction with that address after the step", t), case());
                        return;
                    }
                }
            }
            (Ok(Err(e)), Step::Halt(_)) => {
                if !matches!(e, Error::ExecutorNoValidLocation) {
                    acc.violation(format!("C07|halt|error-{}|{}", err_class(&e), sc), format!("end of terminal block: executor error {}", e), case());
                    return;
                }
                acc.count("terminated", 1);
                break;
            }
            (Ok(Err(e)), Step::Fault(fl)) => {
                let ok = err_class(&e) == fl.class() || (matches!(fl, Fault::Unmapped(_)) && err_class(&e) == "unmapped");
                if !ok {
                    acc.violation(
                        format!("C07|fault|executor-{}-reference-{}|{}", err_class(&e), fl.class(), opkind_class(&opkind)),
                        format!("at `{}`: executor error `{}` but reference fault {:?}", op_text, e, fl),
                        case(),
                    );
                    return;
                }
                acc.count(&format!("faults_{}", fl.class()), 1);
                break;
            }
            (Ok(Err(e)), Step::Branch(t)) => {
                let in_prog = f.blocks().iter().any(|b| b.instructions().iter().any(|i| i.address() == Some(t)));
                let mapped = r.mem.contains_key(&t);
                if in_prog || mapped {
                    acc.violation(
                        format!("C07|branch|error-{}-on-valid-target|{}", err_class(&e), if in_prog { "in-program" } else { "liftable" }),
                        format!("branch to {:#x}: executor error {}", t, e),
                        case(),
                    );
                    return;
                }
                acc.count("faults_branch_unmapped", 1);
                break;
            }
            (Ok(Err(e)), Step::Next(nl, _)) => {
                acc.violation(
                    format!("C07|step|error-{}-instead-of-step|{}", err_class(&e), sc),
                    format!("at `{}`: executor error `{}` but the reference steps to {:?}", op_text, e, nl),
                    case(),
                );
                return;
            }
            (Ok(Ok(nd)), Step::Halt(_)) => {
                acc.violation(format!("C07|halt|stepped-past-end|{}", sc), format!("terminal block ended but executor moved to {}", nd.location()), case());
                return;
            }
            (Ok(Ok(nd)), Step::Fault(fl)) => {
                acc.violation(
                    format!("C07|fault|executor-continues-reference-{}|{}", fl.class(), sc),
                    format!("at `{}`: reference fault {:?} but executor moved to {}", op_text, fl, nd.location()),
                    case(),
                );
                return;
            }
        }
    }
    if steps > 0 {
        acc.count("nontrivial", 1);
    }
    acc.outcome(&(steps, r.scalars.clone(), r.mem.len()));
    if twice {
        // determinism: a second driver over the same program and state yields the same trace
        let (state, _) = build_states(init);
        let arch: RC<dyn Architecture> = RC::new(Amd64::new());
        let f0 = program.function(0).unwrap();
        let ploc = il::ProgramLocation::new(Some(0), Loc::entry(f0).unwrap().to_falcon(f0).unwrap());
        let run = |mut d: Driver| -> Vec<String> {
            let mut t = Vec::new();
            for _ in 0..40 {
                match guarded(|| d.clone().step()) {
                    Ok(Ok(nd)) => {
                        t.push(format!("{}", nd.location()));
                        d = nd;
                    }
                    Ok(Err(e)) => {
                        t.push(format!("err {}", err_class(&e)));
                        break;
                    }
                    Err(_) => {
                        t.push("panic".into());
                        break;
                    }
                }
            }
            t
        };
        let t1 = run(Driver::new(program.clone(), ploc.clone(), state.clone(), arch.clone()));
        let t2 = run(Driver::new(program.clone(), ploc, state, arch));
        if t1 != t2 {
            acc.violation("C07|determinism|traces-differ|-", format!("{:?} vs {:?}", t1, t2), case());
        }
        acc.count("traces", 1);
    }
}

fn opkind_class(k: &str) -> String {
    if k.starts_with('[') {
        "store".into()
    } else if k == "branch" || k == "intrinsic" || k == "nop" {
        k.to_string()
    } else {
        "assign-or-load".into()
    }
}

fn run(ctx: &Ctx) -> Acc {
    let mut acc = Acc::new();
    let alpha = alphabet();
    let inits = inits(ctx.tier.thorough());
    let thorough = ctx.tier.thorough();
    let mut cfgs = vec![GenCfg {
        max_blocks: 2,
        max_instrs: if thorough { 3 } else { 2 },
        max_per_block: if thorough { 3 } else { 2 },
        n_ops: alpha.ops.len(),
        n_guards: alpha.guards.len(),
        all_entries: thorough,
        cond_edges: true,
        with_exit: false,
        three_way: false,
    }];
    // three blocks with three-way guards, few instructions
    cfgs.push(GenCfg {
        max_blocks: 3,
        max_instrs: 1,
        max_per_block: 1,
        n_ops: alpha.ops.len(),
        n_guards: 1,
        all_entries: false,
        cond_edges: false,
        with_exit: false,
        three_way: true,
    });
    for (ci, cfg) in cfgs.iter().enumerate() {
        gen::for_each(cfg, |n, spec| {
            if ci == 1 && spec.n() < 3 {
                return true; // covered by the first configuration
            }
            if ci == 1 && !thorough {
                // quick: the three-way branch sits in the entry block, the other blocks are terminal
                let ok = matches!(spec.succ[0], Succ::Three(..)) && spec.succ[1..].iter().all(|s| *s == Succ::None);
                if !ok {
                    return true;
                }
            }
            if !ctx.mine(n) {
                return true;
            }
            // every program twice: dense instruction indices, and indices starting at 1 (index != position)
            for gapped in [false, true] {
                if gapped && spec.blocks.iter().all(|b| b.is_empty()) {
                    continue;
                }
                gen::GAPPED.store(gapped, std::sync::atomic::Ordering::Relaxed);
                ctx.trace(|| format!("prog\t{}", spec.to_json(&alpha)));
                acc.count("programs", 1);
                for (ii, init) in inits.iter().enumerate() {
                    check_run(&mut acc, spec, &alpha, init, (n + ii as u64) % 16 == 0);
                }
            }
            gen::GAPPED.store(false, std::sync::atomic::Ordering::Relaxed);
            true
        });
    }
    if ctx.shard == 0 {
        let spec = ProgSpec { entry: 0, exit: None, succ: vec![Succ::Two(1, 0, 0), Succ::None], blocks: vec![vec![20, 5], vec![8]] };
        acc.sample(json!({"spec": spec.to_json(&alpha), "init": {"big": false, "a": 1, "b": 255, "prefilled": true}}));
    }
    acc
}

fn replay(case: &Value) -> Acc {
    let mut acc = Acc::new();
    let alpha = alphabet();
    let spec = ProgSpec::from_json(&case["spec"]);
    let i = &case["init"];
    let init = Init {
        big: i["big"].as_bool().unwrap_or(false),
        a: i["a"].as_u64().unwrap_or(0),
        b: i["b"].as_u64().unwrap_or(0),
        prefilled: i["prefilled"].as_bool().unwrap_or(false),
    };
    check_run(&mut acc, &spec, &alpha, &init, true);
    acc
}
