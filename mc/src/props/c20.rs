//! C20 — architecture descriptors agree with the lifters and the platform ABI.
use crate::archs::{self, ARCH_NAMES};
use crate::lifter::{self, Lifted};
use crate::report::{Acc, Describe};
use crate::util::guarded;
use crate::{Ctx, Prop};
use falcon::analysis::calling_convention::{ArgumentType, ReturnAddressType};
use falcon::architecture::Endian;
use serde_json::{json, Value};
use std::collections::{BTreeMap, BTreeSet};

pub fn prop() -> Prop {
    Prop {
        id: "C20",
        describe,
        run,
        replay,
        shards: |_| 7,
        timeout_s: |_| 600,
        mem_limit: 4 << 30,
    }
}

fn describe() -> Describe {
    Describe {
        id: "C20",
        level: "exploration",
        rule: "for each of the 7 architectures the register universe of its translator is obtained by exhaustive lifting (every \
               register-field value of move/add/load/push/vector encodings: all 32 register numbers on the fixed-width ISAs, all \
               ModRM reg/rm x REX on x86); then every descriptor item is checked: stack pointer / word size / endianness, every \
               register named by the default calling convention (arguments, preserved, trashed, return, return address) must be in \
               the universe with that width, no register both preserved and trashed, stack pointer preserved, argument_type(n) for \
               n < 16 yields the psABI's integer argument registers in order and then stack slots of word size, return register and \
               return-address location per psABI. evaluations = descriptor items checked + encodings lifted.",
        assumptions: vec![
            "reference tables transcribed from System V i386 (cdecl), System V AMD64, MIPS o32, PowerPC SysV and AAPCS64".into(),
            "temporaries (names starting with temp) are not part of the register universe".into(),
        ],
        engine: "grid enumerator (one process per architecture)",
    }
}

fn hex(b: &[u8]) -> String {
    b.iter().map(|x| format!("{:02x}", x)).collect()
}

/// Collect (name -> widths) of all non-temporary scalars the translator emits for a set of encodings.
fn universe(arch: &str, acc: &mut Acc) -> BTreeMap<String, BTreeSet<usize>> {
    let mut u: BTreeMap<String, BTreeSet<usize>> = BTreeMap::new();
    let mut add = |bytes: &[u8], acc: &mut Acc| {
        acc.count("evaluations", 1);
        if let Lifted::Ok(btr) = lifter::lift_block(arch, bytes, 0x1000, false) {
            acc.count("encodings_lifted", 1);
            for (n, ws) in lifter::block_scalars(&btr) {
                if !n.starts_with("temp") {
                    u.entry(n).or_default().extend(ws);
                }
            }
        }
    };
    match arch {
        "x86" | "amd64" => {
            let rexes: Vec<Option<u8>> = if arch == "amd64" { vec![None, Some(0x41), Some(0x44), Some(0x45), Some(0x48), Some(0x49), Some(0x4c), Some(0x4d), Some(0x40)] } else { vec![None] };
            for rex in &rexes {
                for pre in [vec![], vec![0x66u8]] {
                    for op in [vec![0x01u8], vec![0x00], vec![0x89], vec![0x88], vec![0x8b], vec![0x0f, 0xb6], vec![0x0f, 0xef], vec![0x0f, 0x6f], vec![0x0f, 0xd4]] {
                        for modrm in (0xc0..=0xffu8).chain([0x00, 0x04, 0x45]) {
                            let mut b = pre.clone();
                            if let Some(r) = rex {
                                b.push(*r);
                            }
                            b.extend_from_slice(&op);
                            b.push(modrm);
                            b.extend_from_slice(&[0x24, 0x00, 0xc3]);
                            add(&b, acc);
                        }
                    }
                }
                for op in 0x50..=0x5fu8 {
                    let mut b = vec![];
                    if let Some(r) = rex {
                        b.push(*r);
                    }
                    b.push(op);
                    b.push(0xc3);
                    add(&b, acc);
                }
            }
            for b in [vec![0xc3u8], vec![0xe8, 0, 0, 0, 0], vec![0xc9, 0xc3], vec![0x74, 0x00], vec![0x7c, 0x00], vec![0x72, 0x00], vec![0xfd, 0xc3], vec![0xf3, 0xa4, 0xc3], vec![0x9e, 0xc3]] {
                add(&b, acc);
            }
        }
        "mips" | "mipsel" => {
            for rd in 0..32u32 {
                for rs in 0..32u32 {
                    let w = (rs << 21) | (((rs + 1) % 32) << 16) | (rd << 11) | 0x21; // addu
                    add(&archs::code_bytes(arch, &[w]), acc);
                }
            }
            for w in [0x00000010u32, 0x00000012, 0x01090018, 0x0109001a, 0x8fbf001c, 0xafbf001c, 0x27bdffe0] {
                add(&archs::code_bytes(arch, &[w]), acc);
            }
            add(&archs::code_bytes(arch, &[0x03e00008, 0]), acc);
            add(&archs::code_bytes(arch, &[0x0c000400, 0]), acc);
            add(&archs::code_bytes(arch, &[0x11090002, 0]), acc);
        }
        "ppc" => {
            for rd in 0..32u32 {
                for ra in 0..32u32 {
                    let w = (31 << 26) | (rd << 21) | (ra << 16) | (((ra + 1) % 32) << 11) | (266 << 1); // add
                    add(&archs::code_bytes(arch, &[w]), acc);
                }
            }
            for crf in 0..8u32 {
                add(&archs::code_bytes(arch, &[(11 << 26) | (crf << 23) | (3 << 16) | 5]), acc); // cmpwi crf, r3, 5
                add(&archs::code_bytes(arch, &[(10 << 26) | (crf << 23) | (3 << 16) | 5]), acc);
            }
            for w in [0x7c0802a6u32, 0x7c0803a6, 0x7c0902a6, 0x7c0903a6, 0x4e800020, 0x48000001, 0x9421fff0, 0x80010014, 0x4e800421, 0x41820008, 0x7c632014, 0x7c632114] {
                add(&archs::code_bytes(arch, &[w]), acc);
            }
        }
        _ => {
            for rd in 0..32u32 {
                for rn in 0..32u32 {
                    let rm = (rn + 1) % 32;
                    for w in [
                        0x8b000000 | (rm << 16) | (rn << 5) | rd, // add x (shifted register)
                        0x0b000000 | (rm << 16) | (rn << 5) | rd, // add w
                        0x91000400 | (rn << 5) | rd,              // add x, x|sp, #1
                        0xf9400000 | (rn << 5) | rd,              // ldr x
                        0x3dc00000 | (rn << 5) | rd,              // ldr q
                        0xfd400000 | (rn << 5) | rd,              // ldr d
                        0xab000000 | (rm << 16) | (rn << 5) | rd, // adds
                    ] {
                        add(&w.to_le_bytes(), acc);
                    }
                }
            }
            for w in [0xd65f03c0u32, 0x94000001, 0xd63f0000, 0x54000040, 0xa9bf7bfd] {
                add(&w.to_le_bytes(), acc);
            }
        }
    }
    u
}

struct Abi {
    args: Vec<&'static str>,
    ret: &'static str,
    /// register holding the return address, or None when it is on the stack at offset 0
    ra_reg: Option<&'static str>,
    stack_offset: usize,
    endian_big: bool,
    word: usize,
    sp: &'static str,
}

fn abi(arch: &str) -> Abi {
    match arch {
        "x86" => Abi { args: vec![], ret: "eax", ra_reg: None, stack_offset: 4, endian_big: false, word: 32, sp: "esp" },
        "amd64" => Abi { args: vec!["rdi", "rsi", "rdx", "rcx", "r8", "r9"], ret: "rax", ra_reg: None, stack_offset: 8, endian_big: false, word: 64, sp: "rsp" },
        "mips" => Abi { args: vec!["$a0", "$a1", "$a2", "$a3"], ret: "$v0", ra_reg: Some("$ra"), stack_offset: 16, endian_big: true, word: 32, sp: "$sp" },
        "mipsel" => Abi { args: vec!["$a0", "$a1", "$a2", "$a3"], ret: "$v0", ra_reg: Some("$ra"), stack_offset: 16, endian_big: false, word: 32, sp: "$sp" },
        "ppc" => Abi { args: vec!["r3", "r4", "r5", "r6", "r7", "r8", "r9", "r10"], ret: "r3", ra_reg: Some("lr"), stack_offset: 8, endian_big: true, word: 32, sp: "r1" },
        "aarch64" => Abi { args: vec!["x0", "x1", "x2", "x3", "x4", "x5", "x6", "x7"], ret: "x0", ra_reg: Some("x30"), stack_offset: 0, endian_big: false, word: 64, sp: "sp" },
        _ => Abi { args: vec!["x0", "x1", "x2", "x3", "x4", "x5", "x6", "x7"], ret: "x0", ra_reg: Some("x30"), stack_offset: 0, endian_big: true, word: 64, sp: "sp" },
    }
}

fn check_arch(acc: &mut Acc, arch_name: &str) {
    let arch = archs::arch(arch_name);
    let u = universe(arch_name, acc);
    let case = |item: &str| json!({"arch": arch_name, "item": item});
    let mut item = |acc: &mut Acc, key: &str, ok: bool, what: String| {
        acc.count("evaluations", 1);
        acc.count("nontrivial", 1);
        acc.outcome(&(arch_name, key, ok));
        if !ok {
            acc.violation(format!("C20|{}|{}", arch_name, key), what, case(key));
        }
    };
    let in_universe = |name: &str, bits: usize| u.get(name).map(|w| w.contains(&bits)).unwrap_or(false);
    let a = abi(arch_name);
    let r = guarded(|| {
        let sp = arch.stack_pointer();
        let cc = arch.calling_convention();
        (sp, cc, arch.word_size(), arch.endian(), arch.name().to_string())
    });
    let (sp, cc, word, endian, _name) = match r {
        Ok(x) => x,
        Err(p) => {
            acc.violation(format!("C20|{}|panic", arch_name), format!("descriptor panicked: {}", p), case("descriptor"));
            return;
        }
    };
    item(acc, "word-size", word == a.word, format!("word_size() = {} expected {}", word, a.word));
    item(acc, "endian", (endian == Endian::Big) == a.endian_big, format!("endian() = {:?}", endian));
    item(acc, "stack-pointer-name", sp.name() == a.sp, format!("stack_pointer() = {} expected {}", sp, a.sp));
    item(acc, "stack-pointer-width", sp.bits() == word, format!("stack_pointer() has {} bits, word size {}", sp.bits(), word));
    item(acc, "stack-pointer-in-universe", in_universe(sp.name(), sp.bits()), format!("{} is not a scalar the translator emits (universe has {:?})", sp, u.get(sp.name())));
    // every register named by the calling convention is produced by the translator with that width
    let mut named: Vec<(&'static str, falcon::il::Scalar)> = Vec::new();
    for s in cc.argument_registers() {
        named.push(("argument", s.clone()));
    }
    for s in cc.preserved_registers() {
        named.push(("preserved", s.clone()));
    }
    for s in cc.trashed_registers() {
        named.push(("trashed", s.clone()));
    }
    named.push(("return", cc.return_register().clone()));
    if let ReturnAddressType::Register(s) = cc.return_address_type() {
        named.push(("return-address", s.clone()));
    }
    named.sort_by(|x, y| (x.0, x.1.name(), x.1.bits()).cmp(&(y.0, y.1.name(), y.1.bits())));
    for (role, s) in &named {
        item(
            acc,
            &format!("register-not-produced|{}|{}:{}", role, s.name(), s.bits()),
            in_universe(s.name(), s.bits()),
            format!("{} register {} is not emitted by the translator with that width (translator widths: {:?})", role, s, u.get(s.name())),
        );
    }
    let both: Vec<String> = cc.preserved_registers().intersection(cc.trashed_registers()).map(|s| s.to_string()).collect();
    item(acc, "preserved-and-trashed", both.is_empty(), format!("both preserved and trashed: {:?}", both));
    item(acc, "stack-pointer-preserved", cc.preserved_registers().contains(&sp) && cc.is_preserved(&sp) == Some(true), format!("{} is not in the preserved set", sp));
    // argument order, then stack slots of word size
    for n in 0..16usize {
        let got = cc.argument_type(n);
        // the base offset of the stack argument area is taken from the descriptor (the statement only
        // fixes the stride); the psABI value is reported as information
        let exp = if n < a.args.len() { ArgumentType::Register(falcon::il::scalar(a.args[n], a.word)) } else { ArgumentType::Stack(cc.stack_argument_offset() + (n - a.args.len()) * (a.word / 8)) };
        let key = if n < a.args.len() { format!("argument-{}", n) } else if n == a.args.len() { "first-stack-argument".to_string() } else { "stack-argument-stride".to_string() };
        item(acc, &key, got == exp, format!("argument_type({}) = {:?} expected {:?}", n, got, exp));
    }
    if cc.stack_argument_offset() != a.stack_offset {
        acc.note(format!("{}: stack_argument_offset() = {} (psABI transcription says {}; not part of the property)", arch_name, cc.stack_argument_offset(), a.stack_offset));
    }
    item(acc, "stack-argument-length", cc.stack_argument_length() == a.word / 8, format!("stack_argument_length() = {} expected {}", cc.stack_argument_length(), a.word / 8));
    item(acc, "return-register", cc.return_register().name() == a.ret && cc.return_register().bits() == a.word, format!("return register {} expected {}:{}", cc.return_register(), a.ret, a.word));
    let ra_ok = match (cc.return_address_type(), a.ra_reg) {
        (ReturnAddressType::Register(s), Some(r)) => s.name() == r && s.bits() == a.word,
        (ReturnAddressType::Stack(o), None) => *o == 0,
        _ => false,
    };
    item(acc, "return-address", ra_ok, format!("return address {:?} expected {:?}", cc.return_address_type(), a.ra_reg.unwrap_or("stack offset 0")));
    acc.sample(json!({"arch": arch_name, "universe_size": u.len(), "universe_sample": u.iter().take(6).map(|(k, v)| format!("{}:{:?}", k, v)).collect::<Vec<_>>()}));
}

fn run(ctx: &Ctx) -> Acc {
    let mut acc = Acc::new();
    if (ctx.shard as usize) < ARCH_NAMES.len() {
        check_arch(&mut acc, ARCH_NAMES[ctx.shard as usize]);
    }
    acc
}

fn replay(case: &Value) -> Acc {
    let mut acc = Acc::new();
    let arch = case["arch"].as_str().unwrap_or("x86").to_string();
    let want = case["item"].as_str().unwrap_or("").to_string();
    check_arch(&mut acc, &arch);
    acc.findings.retain(|k, _| k.ends_with(&want));
    acc
}

#[allow(dead_code)]
fn unused() -> String {
    hex(&[])
}
