//! C02 — MIPS and PowerPC lifters agree with the architecture manuals.
use crate::bv::Val;
use crate::isa_mips::{self, MOut, MState};
use crate::isa_ppc::{self, POut, PState};
use crate::lifter::{self, BlockEnd, Lifted};
use crate::props::c05::mnemonic;
use crate::refil::{End, Fault, RState};
use crate::report::{Acc, Describe};
use crate::{Ctx, Prop};
use serde_json::{json, Value};
use std::collections::BTreeMap;

pub fn prop() -> Prop {
    Prop {
        id: "C02",
        describe,
        run,
        replay,
        shards: |_| 16,
        timeout_s: |t| if t.thorough() { 3400 } else { 300 },
        mem_limit: 4 << 30,
    }
}

fn describe() -> Describe {
    Describe {
        id: "C02",
        level: "exploration",
        rule: "exhaustive grid: MIPS32 (both endiannesses): every SPECIAL/SPECIAL2 funct, REGIMM rt and primary opcode x register \
               fields over the role set {$zero, $t0, $t1, $ra} incl. all aliasing patterns x sa {0,1,31} x immediates {0,1,4,0x7fff,\
               0x8000,0xfffc,0xffff}; every branch x an 8-instruction delay-slot alphabet (writers of the branch's source, link and \
               target registers included); x the 32-bit boundary alphabet squared for the source registers, HI/LO values, all four \
               address alignments for loads/stores. PowerPC: every primary opcode the lifter accepts x extended opcodes x register \
               roles {r0, r3, r4, r31} x immediates x rlwinm SH/MB/ME over {0,1,15,16,30,31}^3 x BO/BI values x CR/CTR/LR/CA states. \
               The lifted IL (single instruction, or branch + delay slot) runs under the reference IL interpreter and is compared \
               with reference ISA interpreters written from the manuals: all GPRs, HI/LO (LR/CTR/CR bits/CA), memory, next PC, and \
               trap <-> intrinsic. Non-trivial = accepted word x state on which the reference defines the outcome.",
        assumptions: vec![
            "trusted base: harness MIPS32 and Power ISA reference interpreters (raw field decoding, manual pseudocode)".into(),
            "results the manuals call UNPREDICTABLE (HI/LO after mul, division by zero, branch in a delay slot) are masked or skipped".into(),
            "accepted words the reference does not model are counted as unmodelled_accepted, never silently dropped".into(),
        ],
        engine: "grid enumerator + reference ISA interpreters (16 processes)",
    }
}

const PC: u32 = 0x1000;
const WIN: u32 = 0x2000;
const MIPS_NAMES: [&str; 32] = [
    "$zero", "$at", "$v0", "$v1", "$a0", "$a1", "$a2", "$a3", "$t0", "$t1", "$t2", "$t3", "$t4", "$t5", "$t6", "$t7", "$s0", "$s1", "$s2", "$s3", "$s4", "$s5", "$s6", "$s7", "$t8", "$t9", "$k0", "$k1", "$gp", "$sp", "$fp", "$ra",
];
const B32: [u32; 11] = [0, 1, 2, 0x7f, 0x80, 0xffff, 0x7fff_ffff, 0x8000_0000, 0xffff_ffff, 0x1234_5678, 0xfedc_ba98];

fn word_bytes(arch: &str, w: u32) -> [u8; 4] {
    if arch == "mips" || arch == "ppc" {
        w.to_be_bytes()
    } else {
        w.to_le_bytes()
    }
}
fn window() -> BTreeMap<u32, u8> {
    (0..64u32).map(|i| (WIN + i, (0xA0 + i * 3) as u8)).collect()
}

// ------------------------------------------------------------------ MIPS

fn mips_il_state(m: &MState) -> RState {
    let mut st = RState::new(if m.big { End::Big } else { End::Little });
    for (i, n) in MIPS_NAMES.iter().enumerate() {
        st.set(n, Val::new(m.r[i] as u128, 32));
    }
    st.set("$hi", Val::new(m.hi as u128, 32));
    st.set("$lo", Val::new(m.lo as u128, 32));
    for (a, b) in &m.mem {
        st.mem.insert(*a as u64, *b);
    }
    st
}

fn mips_states(word: u32, delay: Option<u32>, big: bool, thorough: bool) -> Vec<MState> {
    let op = word >> 26;
    let rs = ((word >> 21) & 31) as usize;
    let rt = ((word >> 16) & 31) as usize;
    let imm = (word & 0xffff) as u16 as i16 as i32 as u32;
    let base = || {
        let mut r = [0u32; 32];
        for (i, x) in r.iter_mut().enumerate() {
            *x = 0x0101_0101u32.wrapping_mul(i as u32) ^ 0x40;
        }
        r[0] = 0;
        MState { r, hi: 0x1111_2222, lo: 0x3333_4444, mem: window(), big, hilo_unpredictable: false }
    };
    let mut out = Vec::new();
    let is_mem = matches!(op, 0x20..=0x26 | 0x28..=0x2b | 0x2e | 0x30 | 0x38);
    if is_mem {
        for align in 0..4u32 {
            for v in [0x1122_3344u32, 0x8000_00ff, 0] {
                let mut s = base();
                if rs != 0 {
                    s.r[rs] = (WIN + 16 + align).wrapping_sub(imm);
                }
                if rt != 0 && rt != rs {
                    s.r[rt] = v;
                }
                out.push(s);
            }
        }
        return out;
    }
    let reduced = delay.is_some() || !thorough;
    let alpha: Vec<u32> = if reduced { vec![0, 1, 0x7fff_ffff, 0x8000_0000, 0xffff_ffff, 0x1234_5678] } else { B32.to_vec() };
    let hilo: Vec<(u32, u32)> = if op == 0x1c || (op == 0 && matches!(word & 0x3f, 0x10 | 0x12)) { vec![(0, 0), (0xffff_ffff, 0xffff_ffff), (0x7fff_ffff, 0xffff_ffff), (0x1, 0x8000_0000)] } else { vec![(0x1111_2222, 0x3333_4444)] };
    for a in &alpha {
        for b in &alpha {
            for (hi, lo) in &hilo {
                let mut s = base();
                if rs != 0 {
                    s.r[rs] = *a;
                }
                if rt != 0 && rt != rs {
                    s.r[rt] = *b;
                }
                // indirect targets must be word aligned to be meaningful
                if op == 0 && matches!(word & 0x3f, 8 | 9) && rs != 0 {
                    s.r[rs] = *a & !3;
                }
                s.hi = *hi;
                s.lo = *lo;
                out.push(s);
                if rs == rt {
                    break;
                }
            }
            if rs == rt || rt == 0 {
                break;
            }
        }
        if rs == 0 {
            break;
        }
    }
    out
}

fn check_mips(acc: &mut Acc, arch: &str, word: u32, delay: Option<u32>, delay_idx: usize, thorough: bool) {
    let big = arch == "mips";
    let mut bytes = word_bytes(arch, word).to_vec();
    if let Some(d) = delay {
        bytes.extend_from_slice(&word_bytes(arch, d));
    }
    let btr = match lifter::lift_block(arch, &bytes, PC as u64, false) {
        Lifted::Ok(b) => b,
        _ => return,
    };
    acc.count("accepted_words", 1);
    let mn = mnemonic(arch, &bytes, PC as u64);
    let case = |st: &MState| json!({"arch": arch, "word": format!("{:08x}", word), "delay": delay.map(|d| format!("{:08x}", d)), "regs": {"rs": st.r[((word >> 21) & 31) as usize], "rt": st.r[((word >> 16) & 31) as usize], "hi": st.hi, "lo": st.lo}});
    let dkey = if delay.is_some() { format!("|delay:{}", delay_idx) } else { String::new() };
    let mut reported = 0;
    for st0 in mips_states(word, delay, big, thorough) {
        let mut m = st0.clone();
        let mo = isa_mips::step(&mut m, PC, word, delay);
        acc.count("evaluations", 1);
        match mo {
            MOut::Unmodelled => {
                acc.count("unmodelled_accepted", 1);
                acc.note(format!("reference does not model accepted {} word {:08x} ({})", arch, word, mn));
                return;
            }
            MOut::Unpredictable => {
                acc.count("unpredictable_skipped", 1);
                return;
            }
            _ => {}
        }
        let mut il = mips_il_state(&st0);
        let end = lifter::run_block(&btr, &mut il, 5000);
        acc.count("nontrivial", 1);
        let mut report = |acc: &mut Acc, comp: &str, what: String| {
            if reported < 4 {
                acc.violation(format!("C02|{}|{}|{}{}", arch, mn, comp, dkey), format!("{:08x}{} `{}`: {}", word, delay.map(|d| format!("+{:08x}", d)).unwrap_or_default(), mn, what), case(&st0));
            }
            reported += 1;
        };
        match (&mo, &end) {
            (MOut::Trap(t), BlockEnd::Intrinsic(_)) => {
                acc.count("traps_matched", 1);
                let _ = t;
                continue;
            }
            (MOut::Trap(t), other) => {
                report(acc, &format!("trap-{}-not-raised", t), format!("the manual raises {} but the IL ends with {:?}", t, other));
                continue;
            }
            (MOut::Fault(_), BlockEnd::Fault(Fault::Unmapped(_))) => continue,
            (MOut::Fault(a), other) => {
                report(acc, "unmapped-access", format!("reference touches unmapped {:#x}, IL ends with {:?}", a, other));
                continue;
            }
            (MOut::Next(n), BlockEnd::Next(a)) => {
                if *a != *n as u64 {
                    report(acc, "next-pc", format!("IL continues at {:#x}, manual at {:#x}", a, n));
                    continue;
                }
            }
            (MOut::Next(_), BlockEnd::Intrinsic(i)) => {
                report(acc, "spurious-trap", format!("IL reaches intrinsic {} where the manual does not trap", i));
                continue;
            }
            (MOut::Next(_), BlockEnd::Fault(Fault::DivZero)) if m.hilo_unpredictable => {
                // division by zero: the manual leaves HI/LO UNPREDICTABLE, the IL has no value to give
                acc.count("division_by_zero_il_error_accepted", 1);
                continue;
            }
            (MOut::Next(_), other) => {
                let cls = match other {
                    BlockEnd::Fault(f) => format!("il-fault:{}", f.class()),
                    o => format!("il-end:{:?}", o).chars().take(24).collect(),
                };
                report(acc, &cls, format!("IL ends with {:?}", other));
                continue;
            }
            _ => continue,
        }
        for i in 1..32 {
            let got = il.get(MIPS_NAMES[i]).map(|v| v.low_u128() as u32);
            if got != Some(m.r[i]) {
                let role = if i == ((word >> 16) & 31) as usize { "rt" } else if i == ((word >> 11) & 31) as usize { "rd" } else if i == 31 { "ra" } else if i == ((word >> 21) & 31) as usize { "rs" } else { "other" };
                report(acc, &format!("reg:{}", role), format!("{} = {:x?} in the IL, {:#x} per the manual", MIPS_NAMES[i], got, m.r[i]));
                break;
            }
        }
        if !m.hilo_unpredictable {
            for (n, v) in [("$hi", m.hi), ("$lo", m.lo)] {
                let got = il.get(n).map(|x| x.low_u128() as u32);
                if got != Some(v) {
                    report(acc, &format!("reg:{}", &n[1..]), format!("{} = {:x?} in the IL, {:#x} per the manual", n, got, v));
                }
            }
        }
        let keys: std::collections::BTreeSet<u32> = m.mem.keys().cloned().chain(il.mem.keys().map(|a| *a as u32)).collect();
        for a in keys {
            if m.mem.get(&a) != il.mem.get(&(a as u64)) {
                report(acc, "memory", format!("byte at {:#x}: IL {:x?}, manual {:x?}", a, il.mem.get(&(a as u64)), m.mem.get(&a)));
                break;
            }
        }
        acc.outcome(&(m.r[8], m.r[9], m.hi, m.lo));
    }
}

fn mips_words(thorough: bool) -> Vec<(u32, Option<u32>, usize)> {
    let roles: [u32; 4] = [0, 8, 9, 31];
    let imms: Vec<u32> = if thorough { vec![0, 1, 4, 0x7fff, 0x8000, 0xfffc, 0xffff] } else { vec![1, 4, 0x7fff, 0x8000, 0xffff] };
    let delays: [u32; 8] = [0, 0x25080001, 0x25090003, 0x3c1f1234, 0x011f4021, 0x03e04825, 0x0128001a, 0xad280000];
    let mut v = Vec::new();
    // R-type
    // thorough: every function code of SPECIAL, SPECIAL2 and SPECIAL3 (whatever the lifter accepts is checked; what the
    // reference does not model is listed in the evidence notes)
    let all64: Vec<u32> = (0..64).collect();
    let groups: Vec<(u32, Vec<u32>)> = if thorough {
        vec![(0, all64.clone()), (0x1c, all64.clone()), (0x1f, all64.clone())]
    } else {
        vec![(0u32, vec![0u32, 2, 3, 4, 6, 7, 0xa, 0xb, 0xc, 0xd, 0xf, 0x10, 0x11, 0x12, 0x13, 0x18, 0x19, 0x1a, 0x1b, 0x20, 0x21, 0x22, 0x23, 0x24, 0x25, 0x26, 0x27, 0x2a, 0x2b, 0x34]), (0x1c, vec![0, 1, 2, 4, 5, 0x20, 0x21])]
    };
    for (op, functs) in groups {
        for f in functs {
            for rs in roles {
                for rt in roles {
                    for rd in roles {
                        for sa in [0u32, 1, 31] {
                            v.push(((op << 26) | (rs << 21) | (rt << 16) | (rd << 11) | (sa << 6) | f, None, 0));
                        }
                    }
                }
            }
        }
    }
    // I-type
    let itype: Vec<u32> = if thorough { (8..64).collect() } else { vec![8u32, 9, 0xa, 0xb, 0xc, 0xd, 0xe, 0xf, 0x20, 0x21, 0x22, 0x23, 0x24, 0x25, 0x26, 0x28, 0x29, 0x2a, 0x2b, 0x2e, 0x30, 0x33, 0x38] };
    for op in itype {
        for rs in roles {
            for rt in roles {
                for imm in &imms {
                    v.push(((op << 26) | (rs << 21) | (rt << 16) | imm, None, 0));
                }
            }
        }
    }
    // branches with delay slots
    let mut branches: Vec<u32> = Vec::new();
    for rs in roles {
        for rt in roles {
            for off in [1u32, 4, 0xfffc, 0xffff] {
                branches.push((4 << 26) | (rs << 21) | (rt << 16) | off);
                branches.push((5 << 26) | (rs << 21) | (rt << 16) | off);
            }
        }
        for off in [1u32, 4, 0xffff] {
            branches.push((6 << 26) | (rs << 21) | off);
            branches.push((7 << 26) | (rs << 21) | off);
            for rt in [0u32, 1, 0x10, 0x11] {
                branches.push((1 << 26) | (rs << 21) | (rt << 16) | off);
            }
        }
        for rd in roles {
            branches.push((rs << 21) | (rd << 11) | 9); // jalr
        }
        branches.push((rs << 21) | 8); // jr
    }
    for t in [0u32, 1, 0x03ff_ffff, 0x400] {
        branches.push((2 << 26) | t);
        branches.push((3 << 26) | t);
    }
    for b in branches {
        for (di, d) in delays.iter().enumerate() {
            v.push((b, Some(*d), di));
        }
    }
    v
}

// ------------------------------------------------------------------ PPC

fn ppc_il_state(p: &PState) -> RState {
    let mut st = RState::new(End::Big);
    for i in 0..32 {
        st.set(&format!("r{}", i), Val::new(p.r[i] as u128, 32));
    }
    st.set("lr", Val::new(p.lr as u128, 32));
    st.set("ctr", Val::new(p.ctr as u128, 32));
    st.set("carry", Val::new(p.ca as u128, 1));
    for f in 0..8 {
        for (k, n) in ["lt", "gt", "eq", "so"].iter().enumerate() {
            st.set(&format!("cr{}-{}", f, n), Val::new(p.cr[4 * f + k] as u128, 1));
        }
    }
    for (a, b) in &p.mem {
        st.mem.insert(*a as u64, *b);
    }
    st
}

fn ppc_states(word: u32, thorough: bool) -> Vec<PState> {
    let op = word >> 26;
    let rd = ((word >> 21) & 31) as usize;
    let ra = ((word >> 16) & 31) as usize;
    let rb = ((word >> 11) & 31) as usize;
    let imm = (word & 0xffff) as u16 as i16 as i32 as u32;
    let base = || {
        let mut r = [0u32; 32];
        for (i, x) in r.iter_mut().enumerate() {
            *x = 0x0101_0101u32.wrapping_mul(i as u32 + 1) ^ 0x80;
        }
        PState { r, lr: 0x4000, ctr: 2, cr: [false; 32], ca: false, so: false, mem: window() }
    };
    let mut out = Vec::new();
    if matches!(op, 32..=37 | 47) {
        for v in [0x1122_3344u32, 0x8000_00ff] {
            let mut s = base();
            if ra != 0 {
                s.r[ra] = (WIN + 16).wrapping_sub(imm);
            }
            if rd != ra {
                s.r[rd] = v;
            }
            out.push(s);
        }
        return out;
    }
    if matches!(op, 16 | 18 | 19) {
        for ctr in [0u32, 1, 2] {
            for crbit in [false, true] {
                let mut s = base();
                s.ctr = if op == 19 && (word >> 1) & 0x3ff == 528 { 0x5000 + 4 * ctr } else { ctr };
                s.cr = [crbit; 32];
                s.lr = 0x4000 + 4 * ctr;
                out.push(s);
            }
        }
        return out;
    }
    let alpha: Vec<u32> = if thorough { B32.to_vec() } else { vec![0, 1, 0x7fff_ffff, 0x8000_0000, 0xffff_ffff, 0x1234_5678] };
    for a in &alpha {
        for b in &alpha {
            for ca in [false, true] {
                let mut s = base();
                s.r[ra] = *a;
                if rb != ra {
                    s.r[rb] = *b;
                }
                if rd != ra && rd != rb {
                    s.r[rd] = b.rotate_left(7) ^ *a;
                }
                s.ca = ca;
                s.lr = *a;
                s.ctr = *b;
                out.push(s);
            }
        }
    }
    out
}

fn check_ppc(acc: &mut Acc, word: u32, thorough: bool) {
    let bytes = word_bytes("ppc", word);
    let btr = match lifter::lift_block("ppc", &bytes, PC as u64, false) {
        Lifted::Ok(b) => b,
        _ => return,
    };
    acc.count("accepted_words", 1);
    let mn = mnemonic("ppc", &bytes, PC as u64);
    let case = |st: &PState| json!({"arch": "ppc", "word": format!("{:08x}", word), "regs": {"rD": st.r[((word >> 21) & 31) as usize], "rA": st.r[((word >> 16) & 31) as usize], "rB": st.r[((word >> 11) & 31) as usize], "ctr": st.ctr, "lr": st.lr, "ca": st.ca, "cr0": st.cr[0]}});
    let form = {
        let op = word >> 26;
        if op == 31 || op == 19 {
            format!("op={},xo={}{}", op, (word >> 1) & 0x3ff, if word & 1 == 1 { ",rc/lk" } else { "" })
        } else if op == 16 {
            format!("op=16,bo={}{}", (word >> 21) & 31, if word & 1 == 1 { ",lk" } else { "" })
        } else {
            format!("op={}", op)
        }
    };
    let mut reported = 0;
    for st0 in ppc_states(word, thorough) {
        let mut p = st0.clone();
        let po = isa_ppc::step(&mut p, PC, word);
        acc.count("evaluations", 1);
        if po == POut::Unmodelled {
            acc.count("unmodelled_accepted", 1);
            acc.note(format!("reference does not model accepted ppc word {:08x} ({})", word, mn));
            return;
        }
        let mut il = ppc_il_state(&st0);
        let end = lifter::run_block(&btr, &mut il, 5000);
        acc.count("nontrivial", 1);
        let mut report = |acc: &mut Acc, comp: &str, what: String| {
            if reported < 4 {
                acc.violation(format!("C02|ppc|{}|{}|{}", mn, comp, form), format!("{:08x} `{}`: {}", word, mn, what), case(&st0));
            }
            reported += 1;
        };
        match (&po, &end) {
            (POut::Fault(_), BlockEnd::Fault(Fault::Unmapped(_))) => continue,
            (POut::Fault(a), other) => {
                report(acc, "unmapped-access", format!("reference touches unmapped {:#x}, IL ends with {:?}", a, other));
                continue;
            }
            (POut::Next(n), BlockEnd::Next(a)) => {
                if *a != *n as u64 {
                    report(acc, "next-pc", format!("IL continues at {:#x}, manual at {:#x}", a, n));
                    continue;
                }
            }
            (POut::Next(n), other) => {
                let cls = match other {
                    BlockEnd::Fault(f) => format!("il-fault:{}", f.class()),
                    BlockEnd::Intrinsic(_) => "spurious-intrinsic".to_string(),
                    BlockEnd::NoSuccessor => "no-successor".to_string(),
                    _ => "il-end".to_string(),
                };
                report(acc, &cls, format!("IL ends with {:?}, manual continues at {:#x}", other, n));
                continue;
            }
            _ => continue,
        }
        for i in 0..32 {
            let got = il.get(&format!("r{}", i)).map(|v| v.low_u128() as u32);
            if got != Some(p.r[i]) {
                let role = if i == ((word >> 21) & 31) as usize { "rD/rS" } else if i == ((word >> 16) & 31) as usize { "rA" } else { "other" };
                report(acc, &format!("reg:{}", role), format!("r{} = {:x?} in the IL, {:#x} per the manual", i, got, p.r[i]));
                break;
            }
        }
        for (n, v) in [("lr", p.lr), ("ctr", p.ctr)] {
            let got = il.get(n).map(|x| x.low_u128() as u32);
            if got != Some(v) {
                report(acc, &format!("reg:{}", n), format!("{} = {:x?} in the IL, {:#x} per the manual", n, got, v));
            }
        }
        if il.get("carry").map(|v| v.is_one()) != Some(p.ca) {
            report(acc, "flag:carry", format!("carry = {:?} in the IL, {} per the manual", il.get("carry"), p.ca));
        }
        for f in 0..8 {
            for (k, n) in ["lt", "gt", "eq", "so"].iter().enumerate() {
                let name = format!("cr{}-{}", f, n);
                if il.get(&name).map(|v| v.is_one()) != Some(p.cr[4 * f + k]) {
                    report(acc, &format!("flag:cr-{}", n), format!("{} = {:?} in the IL, {} per the manual", name, il.get(&name), p.cr[4 * f + k]));
                }
            }
        }
        let keys: std::collections::BTreeSet<u32> = p.mem.keys().cloned().chain(il.mem.keys().map(|a| *a as u32)).collect();
        for a in keys {
            if p.mem.get(&a) != il.mem.get(&(a as u64)) {
                report(acc, "memory", format!("byte at {:#x}: IL {:x?}, manual {:x?}", a, il.mem.get(&(a as u64)), p.mem.get(&a)));
                break;
            }
        }
        acc.outcome(&(p.r[3], p.r[4], p.lr, p.ctr, p.ca));
    }
}

fn ppc_words(thorough: bool) -> Vec<u32> {
    let roles: [u32; 4] = [0, 3, 4, 31];
    let imms: Vec<u32> = if thorough { vec![0, 1, 4, 0x7fff, 0x8000, 0xfffc, 0xffff] } else { vec![1, 4, 0x7fff, 0x8000, 0xffff] };
    let mut v = Vec::new();
    let dform: Vec<u32> = if thorough { (2..64).filter(|o| ![16u32, 17, 18, 19, 21, 31].contains(o)).collect() } else { vec![10u32, 11, 14, 15, 24, 32, 33, 34, 36, 37, 47] };
    for op in dform {
        for rd in roles {
            for ra in roles {
                for imm in &imms {
                    v.push((op << 26) | (rd << 21) | (ra << 16) | imm);
                    if op == 10 || op == 11 {
                        for crf in 1..8u32 {
                            v.push((op << 26) | (crf << 23) | (ra << 16) | imm);
                        }
                    }
                }
            }
        }
    }
    let xforms: Vec<u32> = if thorough { (0..1024).collect() } else { vec![266u32, 202, 40, 444, 824, 339, 467] };
    for xo in xforms {
        for rd in roles {
            for ra in roles {
                for rb in roles {
                    for rc in 0..2u32 {
                        let w = (31 << 26) | (rd << 21) | (ra << 16) | (rb << 11) | (xo << 1) | rc;
                        v.push(w);
                        if xo == 339 || xo == 467 {
                            // LR = spr 8, CTR = spr 9
                            for spr in [8u32, 9] {
                                v.push((31 << 26) | (rd << 21) | (spr << 16) | (xo << 1));
                            }
                        }
                    }
                }
            }
        }
    }
    let six = [0u32, 1, 15, 16, 30, 31];
    for rs in [3u32, 31] {
        for ra in [0u32, 4] {
            for sh in six {
                for mb in six {
                    for me in six {
                        for rc in 0..2u32 {
                            v.push((21 << 26) | (rs << 21) | (ra << 16) | (sh << 11) | (mb << 6) | (me << 1) | rc);
                        }
                    }
                }
            }
        }
    }
    // branches
    for li in [4u32, 0x03ff_fffc, 0x100] {
        for aalk in 0..4u32 {
            v.push((18 << 26) | li | aalk);
        }
    }
    for bo in 0..32u32 {
        for bi in [0u32, 2, 5, 31] {
            for bd in [8u32, 0xfffc] {
                for aalk in 0..4u32 {
                    v.push((16 << 26) | (bo << 21) | (bi << 16) | bd | aalk);
                }
            }
            for xo in [16u32, 528] {
                for lk in 0..2u32 {
                    v.push((19 << 26) | (bo << 21) | (bi << 16) | (xo << 1) | lk);
                }
            }
        }
    }
    v.push(0x60000000);
    v
}

fn run(ctx: &Ctx) -> Acc {
    let mut acc = Acc::new();
    let thorough = ctx.tier.thorough();
    let mut unit = 0u64;
    for arch in ["mips", "mipsel"] {
        for (w, d, di) in mips_words(thorough) {
            unit += 1;
            if !ctx.mine(unit) {
                continue;
            }
            ctx.trace(|| format!("{}\t{}", arch, json!({"arch": arch, "word": format!("{:08x}", w), "delay": d.map(|x| format!("{:08x}", x))})));
            check_mips(&mut acc, arch, w, d, di, thorough);
        }
    }
    for w in ppc_words(thorough) {
        unit += 1;
        if !ctx.mine(unit) {
            continue;
        }
        ctx.trace(|| format!("ppc\t{}", json!({"arch": "ppc", "word": format!("{:08x}", w)})));
        check_ppc(&mut acc, w, thorough);
    }
    if ctx.shard == 0 {
        acc.sample(json!({"arch": "mips", "word": "0320f809", "delay": "24190008", "note": "jalr $t9 with a delay slot that writes $t9"}));
        acc.sample(json!({"arch": "ppc", "word": "5464083c", "note": "rlwinm r4,r3,1,0,30"}));
    }
    acc
}

fn replay(case: &Value) -> Acc {
    let mut acc = Acc::new();
    let arch = case["arch"].as_str().unwrap_or("mips").to_string();
    let w = u32::from_str_radix(case["word"].as_str().unwrap_or("0"), 16).unwrap_or(0);
    if arch == "ppc" {
        check_ppc(&mut acc, w, true);
    } else {
        let d = case["delay"].as_str().and_then(|s| u32::from_str_radix(s, 16).ok());
        check_mips(&mut acc, &arch, w, d, 0, true);
    }
    acc
}
