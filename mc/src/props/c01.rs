//! C01 — x86/amd64 lifter agrees with the processor on every instruction and state.
use crate::bv::Val;
use crate::lifter::{self, Lifted};
use crate::native::{self, NState, Sandbox, CODE_OFF, CODE_TAIL, MAP_BASE, PADS_LEN, PADS_OFF, PAD_FLAG_OFF, STACK_OFF, TARGET_PAD_DELTA, WIN_OFF, WIN_SIZE};
use crate::refil::{self, End, Fault, IntrinsicMode, Loc, RState, Step};
use crate::report::{Acc, Describe};
use crate::x86gen::{self, Enc};
use crate::{Ctx, Prop};
use falcon::il;
use falcon_capstone::capstone;
use serde_json::{json, Value};
use std::collections::BTreeSet;
use std::sync::Arc;

pub fn prop() -> Prop {
    Prop {
        id: "C01",
        describe,
        run,
        replay,
        shards: |_| 16,
        timeout_s: |t| if t.thorough() { 7000 } else { 300 },
        mem_limit: 0, // the fixed mapping and signal stack must not be constrained
    }
}

fn describe() -> Describe {
    Describe {
        id: "C01",
        level: "exploration",
        rule: "exhaustive grid: byte grammar [66/F2/F3][REX in 9 values (amd64)][every 1-byte and 0F opcode, 0F38/0F3A rows][ModRM/SIB \
               forms][displacement/immediate patterns], relative branches with rel=+32, restricted to encodings the lifter accepts \
               without intrinsic; for each, the cross product of a boundary alphabet for every register the lifted IL reads (shift \
               counts 0..65,255; rep counts 0..3), canaries elsewhere, address registers solved into a 4 KiB scratch window, 3 \
               memory patterns when the IL loads, 7 flag valuations when the IL reads flags. Each state runs on the HOST CPU through \
               a trampoline and through the reference IL interpreter; all GPRs, XMM0-15, CF/ZF/SF/OF/DF (minus SDM-undefined flags), \
               the scratch window, the guest stack and the next instruction address are compared. 32-bit mode is checked through \
               the long-mode equivalent encoding (0x67 added to memory forms, 40-4F mapped to FF /0,/1) for mode-invariant opcodes. \
               Non-trivial = state where the CPU raised no exception.",
        assumptions: vec![
            "host CPU (x86-64) is the oracle; states on which it raises an exception are skipped and counted".into(),
            "flags the SDM leaves undefined are masked per mnemonic and shift count; PF/AF are not compared".into(),
            "segment overrides, mov to/from segment registers, far transfers and privileged/system instructions are not executed".into(),
            "32-bit stack instructions (push/pop/call/ret/leave/pushf/popf) and 16-bit addressing have no CPU oracle in this sandbox and are not compared".into(),
        ],
        engine: "grid enumerator + native trampoline (16 single-threaded worker processes)",
    }
}

const GPR64: [&str; 16] = ["rax", "rcx", "rdx", "rbx", "rsp", "rbp", "rsi", "rdi", "r8", "r9", "r10", "r11", "r12", "r13", "r14", "r15"];
const GPR32: [&str; 8] = ["eax", "ecx", "edx", "ebx", "esp", "ebp", "esi", "edi"];
const FLAGS: [(&str, u64); 5] = [("CF", 0), ("ZF", 6), ("SF", 7), ("DF", 10), ("OF", 11)];

fn hex(b: &[u8]) -> String {
    b.iter().map(|x| format!("{:02x}", x)).collect()
}
fn unhex(s: &str) -> Vec<u8> {
    (0..s.len() / 2).map(|i| u8::from_str_radix(&s[2 * i..2 * i + 2], 16).unwrap()).collect()
}

struct Dis {
    cs64: capstone::Capstone,
    cs32: capstone::Capstone,
}
impl Dis {
    fn new() -> Dis {
        Dis {
            cs64: capstone::Capstone::new(capstone::cs_arch::CS_ARCH_X86, capstone::CS_MODE_64).unwrap(),
            cs32: capstone::Capstone::new(capstone::cs_arch::CS_ARCH_X86, capstone::CS_MODE_32).unwrap(),
        }
    }
    fn decode(&self, mode64: bool, bytes: &[u8], addr: u64) -> Option<(usize, String)> {
        let cs = if mode64 { &self.cs64 } else { &self.cs32 };
        match cs.disasm(bytes, addr, 1) {
            Ok(ins) if ins.count() > 0 => {
                let i = ins.get(0).unwrap();
                Some((i.size as usize, i.mnemonic.clone()))
            }
            _ => None,
        }
    }
}

/// pre-built functions for the per-instruction graphs of a block
struct Pre {
    graphs: Vec<il::Function>,
    successors: Vec<(u64, Option<il::Expression>)>,
}
#[derive(Debug, PartialEq)]
enum IlEnd {
    Next(u64),
    NoSuccessor,
    Fault(Fault),
    StepLimit,
}
fn run_pre(p: &Pre, st: &mut RState) -> IlEnd {
    for f in &p.graphs {
        let mut loc = match Loc::entry(f) {
            Ok(l) => l,
            Err(fl) => return IlEnd::Fault(fl),
        };
        let mut steps = 0;
        loop {
            steps += 1;
            if steps > 20_000 {
                return IlEnd::StepLimit;
            }
            match refil::step(f, &loc, st, IntrinsicMode::Fault) {
                Step::Next(l, _) => loc = l,
                Step::Halt(_) => break,
                Step::Branch(t) => return IlEnd::Next(t),
                Step::Fault(fl) => return IlEnd::Fault(fl),
            }
        }
    }
    let mut taken = None;
    for (addr, cond) in &p.successors {
        let on = match cond {
            None => true,
            Some(c) => match refil::eval(c, st) {
                Ok(v) => v.is_one(),
                Err(fl) => return IlEnd::Fault(fl),
            },
        };
        if on {
            if taken.is_some() {
                return IlEnd::Fault(Fault::AmbiguousGuard);
            }
            taken = Some(*addr);
        }
    }
    match taken {
        Some(a) => IlEnd::Next(a),
        None if p.successors.is_empty() => IlEnd::NoSuccessor,
        None => IlEnd::Fault(Fault::NoGuard),
    }
}

fn boundary64(reduced: bool) -> Vec<u64> {
    if reduced {
        vec![0, 1, 0x7f, 0x80, 0xff, 0x8000, 0xffff_ffff, 0x8000_0000, 0x8000_0000_0000_0000, 0xffff_ffff_ffff_ffff, 0x0123_4567_89ab_cdef]
    } else {
        vec![
            0, 1, 2, 0x7f, 0x80, 0xff, 0x100, 0x7fff, 0x8000, 0xffff, 0x7fff_ffff, 0x8000_0000, 0xffff_ffff, 0x1_0000_0000, 0x7fff_ffff_ffff_ffff, 0x8000_0000_0000_0000, 0xffff_ffff_ffff_ffff, 0x0123_4567_89ab_cdef, 0xfedc_ba98_7654_3210,
        ]
    }
}
const SHIFT_COUNTS: [u64; 17] = [0, 1, 2, 7, 8, 9, 15, 16, 17, 31, 32, 33, 63, 64, 65, 255, 0x101];

/// opcodes (first opcode byte, no 0F) that are not mode-invariant or have no long-mode equivalent
fn x86_only_or_changed(op: &[u8]) -> bool {
    if op.len() == 1 {
        matches!(
            op[0],
            0x06 | 0x07 | 0x0e | 0x16 | 0x17 | 0x1e | 0x1f | 0x27 | 0x2f | 0x37 | 0x3f | 0x60 | 0x61 | 0x62 | 0x63 | 0x82 | 0x9a | 0xc4 | 0xc5 | 0xce | 0xd4 | 0xd5 | 0xd6 | 0xea
                | 0x40..=0x4f | 0x50..=0x5f | 0x68 | 0x6a | 0x8f | 0xc2 | 0xc3 | 0xc9 | 0xe8 | 0x9c | 0x9d | 0xca | 0xcb | 0xcf | 0xc8 | 0xa0..=0xa3
        )
    } else {
        false
    }
}

/// never executed natively
fn dangerous(op: &[u8], modrm: u8) -> bool {
    match op {
        [0x8c] | [0x8e] => true,                                // segment register moves
        [0xcd] | [0xcc] | [0xce] | [0xf1] | [0xf4] => true,     // int, int3, into, icebp, hlt
        [0xe4..=0xe7] | [0xec..=0xef] | [0x6c..=0x6f] => true,  // in/out
        [0xfa] | [0xfb] => true,                                // cli/sti
        [0x9a] | [0xea] | [0xca] | [0xcb] | [0xcf] => true,     // far transfers, iret
        [0xff] => matches!((modrm >> 3) & 7, 3 | 5),            // far call/jmp
        [0x0f, 0x05] | [0x0f, 0x34] | [0x0f, 0x35] | [0x0f, 0x07] | [0x0f, 0x0b] => true,
        [0x0f, 0x00] | [0x0f, 0x01] | [0x0f, 0x06] | [0x0f, 0x08] | [0x0f, 0x09] | [0x0f, 0x30..=0x33] => true,
        [0x0f, 0xa0] | [0x0f, 0xa1] | [0x0f, 0xa8] | [0x0f, 0xa9] | [0x0f, 0xb2] | [0x0f, 0xb4] | [0x0f, 0xb5] => true,
        [0x0f, 0xae] | [0x0f, 0xc7] | [0x0f, 0x20..=0x23] => true,
        _ => false,
    }
}

#[derive(Clone, Debug)]
struct Case {
    mode64: bool,
    /// bytes the lifter sees
    il_bytes: Vec<u8>,
    /// bytes the CPU executes
    cpu_bytes: Vec<u8>,
}

fn is_rel_branch(op: &[u8]) -> Option<usize> {
    match op {
        [0x70..=0x7f] | [0xe0..=0xe3] | [0xeb] => Some(1),
        [0xe8] | [0xe9] => Some(4),
        [0x0f, 0x80..=0x8f] => Some(4),
        _ => None,
    }
}

/// Build the instruction strings for one grammar element.
fn build_case(e: &Enc, mode64: bool) -> Option<Case> {
    let mut head = e.prefix.clone();
    if let Some(r) = e.rex {
        head.push(r);
    }
    head.extend_from_slice(&e.opcode);
    let il_bytes: Vec<u8>;
    if let Some(n) = is_rel_branch(&e.opcode) {
        if e.modrm != 0xc0 {
            return None; // one instance per opcode
        }
        let mut b = head.clone();
        b.push(0x20);
        b.extend(std::iter::repeat(0).take(n - 1));
        il_bytes = b;
    } else {
        let mut b = e.head();
        b.extend_from_slice(&x86gen::TAILS[e.tail as usize]);
        il_bytes = b;
    }
    if mode64 {
        return Some(Case { mode64, il_bytes: il_bytes.clone(), cpu_bytes: il_bytes });
    }
    // 32-bit mode through the long-mode equivalent encoding
    if e.opcode[..] == [0xff] && matches!((e.modrm >> 3) & 7, 2 | 6) {
        return None; // call r/m and push r/m move the stack pointer by the mode's word size: no long-mode equivalent
    }
    if x86_only_or_changed(&e.opcode) {
        if let [op @ 0x40..=0x4f] = e.opcode[..] {
            if e.modrm != 0xc0 || e.tail != 1 {
                return None;
            }
            let mut il = e.prefix.clone();
            il.push(op);
            let mut cpu = e.prefix.clone();
            cpu.push(0xff);
            cpu.push(if op < 0x48 { 0xc0 + (op - 0x40) } else { 0xc8 + (op - 0x48) });
            return Some(Case { mode64, il_bytes: il, cpu_bytes: cpu });
        }
        return None;
    }
    let mem_form = is_rel_branch(&e.opcode).is_none() && (e.modrm >> 6) != 3;
    if mem_form && (e.modrm & 0xc7) == 0x05 {
        return None; // [disp32] in 32-bit mode is rip-relative in long mode: no equivalent single encoding
    }
    let string_op = matches!(e.opcode[..], [0xa4..=0xa7] | [0xaa..=0xaf]);
    let mut cpu = Vec::new();
    if mem_form || string_op {
        cpu.push(0x67);
    }
    cpu.extend_from_slice(&il_bytes);
    Some(Case { mode64, il_bytes, cpu_bytes: cpu })
}

fn mask_defined_flags(mn: &str, count: Option<u64>, opbits: u32) -> u64 {
    // returns the set of flag bits to COMPARE
    let all: u64 = (1 << 0) | (1 << 6) | (1 << 7) | (1 << 10) | (1 << 11);
    let (cf, zf, sf, of) = (1u64 << 0, 1u64 << 6, 1u64 << 7, 1u64 << 11);
    let m = mn.trim_start_matches("lock ").trim_start_matches("rep ").trim_start_matches("repne ");
    match m {
        "shl" | "sal" | "shr" | "sar" => match count {
            Some(0) | Some(1) => all,
            Some(c) if c as u32 >= opbits => all & !(of | cf),
            _ => all & !of,
        },
        "rol" | "ror" | "rcl" | "rcr" => match count {
            Some(0) | Some(1) => all,
            _ => all & !of,
        },
        "shld" | "shrd" => match count {
            Some(0) | Some(1) => all,
            Some(c) if c as u32 > opbits => all & !(of | cf | sf | zf),
            _ => all & !of,
        },
        "mul" | "imul" => all & !(sf | zf),
        "div" | "idiv" => all & !(cf | zf | sf | of),
        "bsf" | "bsr" => all & !(cf | sf | of),
        "bt" | "bts" | "btr" | "btc" => all & !(of | sf),
        _ => all,
    }
}

struct Checker {
    sb: Sandbox,
    dis: Dis,
}

fn read_scalars(pre: &Pre) -> (BTreeSet<String>, BTreeSet<String>, bool) {
    // (all scalars read, scalars used in load/store addresses, has load)
    let mut reads = BTreeSet::new();
    let mut addrs = BTreeSet::new();
    let mut has_load = false;
    let mut add = |e: &il::Expression, set: &mut BTreeSet<String>| {
        for s in e.scalars() {
            set.insert(s.name().to_string());
        }
    };
    for f in &pre.graphs {
        for b in f.blocks() {
            for i in b.instructions() {
                match i.operation() {
                    il::Operation::Assign { src, .. } => add(src, &mut reads),
                    il::Operation::Store { index, src } => {
                        add(index, &mut addrs);
                        add(src, &mut reads)
                    }
                    il::Operation::Load { index, .. } => {
                        has_load = true;
                        add(index, &mut addrs)
                    }
                    il::Operation::Branch { target } => add(target, &mut reads),
                    _ => {}
                }
            }
        }
        for e in f.edges() {
            if let Some(c) = e.condition() {
                add(c, &mut reads);
            }
        }
    }
    for (_, c) in &pre.successors {
        if let Some(c) = c {
            add(c, &mut reads);
        }
    }
    (reads, addrs, has_load)
}

fn gpr_index(name: &str) -> Option<usize> {
    GPR64.iter().position(|r| *r == name).or_else(|| GPR32.iter().position(|r| *r == name))
}

impl Checker {
    fn check(&self, acc: &mut Acc, c: &Case, thorough: bool) {
        let arch = if c.mode64 { "amd64" } else { "x86" };
        acc.count("encodings_tried", 1);
        // the CPU-side string must decode (in 64-bit mode) to exactly its length, the IL-side string likewise
        let (ilen, mn) = match self.dis.decode(c.mode64, &c.il_bytes, MAP_BASE + CODE_OFF) {
            Some(x) => x,
            None => return,
        };
        let (clen, _) = match self.dis.decode(true, &c.cpu_bytes, MAP_BASE + CODE_OFF) {
            Some(x) => x,
            None => return,
        };
        // Both instructions END where the landing-pad page starts (see native.rs): the fall-through address and the
        // branch-target pad are the same for the IL and for the CPU even when the CPU-side encoding is longer.
        let inst_end = MAP_BASE + PADS_OFF;
        let code_addr = inst_end - ilen as u64;
        let il_bytes = &c.il_bytes[..ilen];
        let cpu_bytes = &c.cpu_bytes[..clen];
        if !c.mode64 && clen != ilen + (c.cpu_bytes.len() - c.il_bytes.len()) && c.cpu_bytes.len() != c.il_bytes.len() + 1 {
            return;
        }
        let case = |extra: Value| json!({"mode64": c.mode64, "il_bytes": hex(il_bytes), "cpu_bytes": hex(cpu_bytes), "state": extra});
        let form = {
            let (r, _, _) = strip_prefixes(il_bytes);
            let r = if c.mode64 && !r.is_empty() && (0x40..=0x4f).contains(&r[0]) && r.len() > 1 { &r[1..] } else { r };
            let opc = if r.first() == Some(&0x0f) { hex(&r[..r.len().min(2)]) } else { hex(&r[..r.len().min(1)]) };
            // group-opcodes carry the operation in ModRM.reg
            let grp = if matches!(r.first(), Some(0x80..=0x83) | Some(0xc0) | Some(0xc1) | Some(0xd0..=0xd3) | Some(0xf6) | Some(0xf7) | Some(0xfe) | Some(0xff)) || (r.first() == Some(&0x0f) && r.get(1) == Some(&0xba)) {
                let m = if r.first() == Some(&0x0f) { r.get(2) } else { r.get(1) };
                m.map(|m| format!("/{}", (m >> 3) & 7)).unwrap_or_default()
            } else {
                String::new()
            };
            format!("op={}{},{},{}bit", opc, grp, if ilen > 1 && is_mem_form(il_bytes) { "mem" } else { "reg" }, operand_bits(il_bytes, c.mode64))
        };
        let btr = match lifter::lift_block(arch, il_bytes, code_addr, false) {
            Lifted::Ok(b) => b,
            Lifted::Err(e) => {
                if e.contains("Sort") {
                    acc.count("evaluations", 1);
                    acc.violation(format!("C01|{}|{}|sort-error-while-lifting", arch, mn), format!("lifting {} ({}) fails with a sort error: {}", hex(il_bytes), mn, e), case(json!(null)));
                }
                return;
            }
            Lifted::Panic(_) => return, // C05's business
        };
        // accepted = lifted, consumed exactly this instruction, no intrinsic
        if btr.instructions().len() != 1 {
            return;
        }
        let has_intrinsic = btr.instructions().iter().any(|(_, g)| g.blocks().iter().any(|b| b.instructions().iter().any(|i| matches!(i.operation(), il::Operation::Intrinsic { .. }))));
        if has_intrinsic {
            return;
        }
        acc.count("encodings_accepted", 1);
        let pre = Pre { graphs: btr.instructions().iter().map(|(_, g)| il::Function::new(0, g.clone())).collect(), successors: btr.successors().clone() };
        let (reads, addrs, has_load) = read_scalars(&pre);
        if reads.iter().chain(addrs.iter()).any(|s| s.ends_with("_base")) {
            acc.count("skipped_segment_base", 1);
            return;
        }
        // ---- code page
        let target_pad = inst_end + TARGET_PAD_DELTA;
        let native_addr = self.sb.set_instruction(cpu_bytes);
        debug_assert_eq!(native_addr, inst_end - clen as u64);
        let window_addr = inst_end - CODE_TAIL as u64;
        let code_bytes_full: Vec<u8> = self.sb.code_window();
        // what the IL sees around the code address: the instruction bytes followed by the pads
        let code_image: Arc<Vec<u8>> = {
            let mut v = code_bytes_full.clone();
            if ilen != clen {
                // 32-bit mode: the instruction the IL knows is shorter by the added prefix; reads of
                // the code bytes themselves are not comparable
                v.clear();
            }
            Arc::new(v)
        };
        let il_end = inst_end;
        let il_target = target_pad;
        let indirect = matches!(mn.as_str(), "jmp" | "call" | "ret" | "notrack jmp" | "notrack call") && is_rel_branch_bytes(il_bytes).is_none();
        // ---- state grid
        let is_shift = matches!(mn.as_str(), "shl" | "sal" | "shr" | "sar" | "rol" | "ror" | "rcl" | "rcr" | "shld" | "shrd");
        let rep = mn.starts_with("rep");
        let srcs: Vec<usize> = reads.iter().filter(|n| !addrs.contains(*n)).filter_map(|n| gpr_index(n)).filter(|i| *i != 4).collect::<BTreeSet<_>>().into_iter().collect();
        let addr_regs: Vec<usize> = addrs.iter().filter_map(|n| gpr_index(n)).collect::<BTreeSet<_>>().into_iter().collect();
        let xmm_srcs: Vec<usize> = reads.iter().filter_map(|n| n.strip_prefix("xmm").and_then(|x| x.parse().ok())).collect();
        let reads_flags = reads.iter().any(|n| FLAGS.iter().any(|(f, _)| f == n));
        let reduced = srcs.len() >= 2;
        let alpha = boundary64(reduced || !thorough && srcs.len() >= 1 && has_load);
        let mut grids: Vec<Vec<u64>> = Vec::new();
        for &s in &srcs {
            if s == 1 && (is_shift || rep) {
                grids.push(if rep { vec![0, 1, 2, 3] } else { SHIFT_COUNTS.to_vec() });
            } else if srcs.len() >= 3 {
                grids.push(vec![0, 1, 0xff, 0x8000_0000, 0xffff_ffff_ffff_ffff, 0x0123_4567_89ab_cdef]);
            } else {
                grids.push(alpha.clone());
            }
        }
        let flag_sets: Vec<u64> = if reads_flags {
            vec![0, 1, 1 << 6, 1 << 7, 1 << 11, (1 << 0) | (1 << 6) | (1 << 7) | (1 << 11), (1 << 6) | (1 << 11), (1 << 0) | (1 << 7)]
        } else {
            vec![0, (1 << 0) | (1 << 6) | (1 << 7) | (1 << 11)]
        };
        let df_sets: Vec<u64> = if reads.contains("DF") { vec![0, 1 << 10] } else { vec![0] };
        let mem_patterns: Vec<u8> = if indirect { vec![9] } else if has_load { vec![0, 1, 2] } else { vec![0] };
        let xmm_vals: Vec<[u64; 2]> = vec![[0x0123_4567_89ab_cdef, 0xfedc_ba98_7654_3210], [0xffff_ffff_ffff_ffff, 0x8000_0000_0000_0000], [0x00ff_00ff_7f80_0180, 0x0000_0001_ffff_0000]];
        // total grid
        let mut total: usize = grids.iter().map(|g| g.len()).product::<usize>().max(1);
        total *= flag_sets.len() * df_sets.len() * mem_patterns.len() * if xmm_srcs.is_empty() { 1 } else { xmm_vals.len() };
        let cap = if thorough { 1000 } else { 400 };
        let stride = (total / cap).max(1);
        if stride > 1 {
            acc.count("encodings_with_strided_state_grid", 1);
            acc.cap(format!("C01: the state cross product of an encoding is walked with a fixed stride when it exceeds {} states (every encoding is still executed; see counter encodings_with_strided_state_grid)", cap));
        }
        let mut idx = 0usize;
        let mut violations_here = 0;
        // iterate the cross product by index
        let dims: Vec<usize> = grids.iter().map(|g| g.len()).chain([flag_sets.len(), df_sets.len(), mem_patterns.len(), if xmm_srcs.is_empty() { 1 } else { xmm_vals.len() }]).collect();
        while idx < total {
            let mut k = idx;
            idx += stride;
            let mut pick = Vec::with_capacity(dims.len());
            for d in &dims {
                pick.push(k % d);
                k /= d;
            }
            let ng = grids.len();
            // ---- native initial state
            let mut ns = NState::zero();
            for i in 0..16 {
                ns.gpr[i] = if c.mode64 { 0x1111_0000_0000_1000u64.wrapping_mul(1 + i as u64) ^ 0x4141 } else { 0x1101_0100u64.wrapping_mul(1 + i as u64) & 0xffff_ffff };
            }
            for (gi, &s) in srcs.iter().enumerate() {
                let v = grids[gi][pick[gi]];
                ns.gpr[s] = if c.mode64 { v } else { v & 0xffff_ffff };
            }
            ns.gpr[4] = MAP_BASE + STACK_OFF + 0x800;
            if indirect {
                for &s in &srcs {
                    ns.gpr[s] = if c.mode64 { target_pad } else { target_pad };
                }
            }
            ns.rflags = 0x202 | flag_sets[pick[ng]] | df_sets[pick[ng + 1]];
            for i in 0..16 {
                ns.xmm[i] = [0x1000 + i as u64, 0x2000 + i as u64];
            }
            if !xmm_srcs.is_empty() {
                for (j, &x) in xmm_srcs.iter().enumerate() {
                    let v = xmm_vals[(pick[ng + 3] + j) % xmm_vals.len()];
                    ns.xmm[x % 16] = v;
                }
            }
            // ---- memory
            let pat = mem_patterns[pick[ng + 2]];
            let mut win = vec![0u8; WIN_SIZE];
            for (i, b) in win.iter_mut().enumerate() {
                *b = match pat {
                    0 => ((i * 7 + 3) & 0xff) as u8,
                    1 => 0xff,
                    2 => if i % 8 == 7 { 0x80 } else { 0 },
                    _ => target_pad.to_le_bytes()[i % 8],
                };
            }
            let mut stack = vec![0u8; WIN_SIZE];
            for (i, b) in stack.iter_mut().enumerate() {
                *b = target_pad.to_le_bytes()[i % 8];
            }
            // ---- IL initial state (address registers solved afterwards)
            let mk_il = |ns: &NState, win: &Vec<u8>, stack: &Vec<u8>| -> RState {
                let mut st = RState::new(End::Little);
                if c.mode64 {
                    for (i, r) in GPR64.iter().enumerate() {
                        st.set(r, Val::new(ns.gpr[i] as u128, 64));
                    }
                } else {
                    for (i, r) in GPR32.iter().enumerate() {
                        st.set(r, Val::new((ns.gpr[i] & 0xffff_ffff) as u128, 32));
                    }
                }
                for (f, bit) in FLAGS {
                    st.set(f, Val::new(((ns.rflags >> bit) & 1) as u128, 1));
                }
                st.set("PF", Val::new(((ns.rflags >> 2) & 1) as u128, 1));
                st.set("AF", Val::new(((ns.rflags >> 4) & 1) as u128, 1));
                for i in 0..16 {
                    st.set(&format!("xmm{}", i), Val::new((ns.xmm[i][0] as u128) | ((ns.xmm[i][1] as u128) << 64), 128));
                }
                st.bg = vec![(MAP_BASE + WIN_OFF, Arc::new(win.clone())), (MAP_BASE + STACK_OFF, Arc::new(stack.clone())), (window_addr, code_image.clone())];
                st
            };
            // solve address registers: put the effective address of the first Load/Store into the window
            if !addr_regs.is_empty() {
                let want = MAP_BASE + WIN_OFF + 0x800;
                for &r in &addr_regs {
                    if r != 4 {
                        ns.gpr[r] = 0;
                    }
                }
                let ea = |ns: &NState| -> Option<u64> { first_address(&pre, &mk_il(ns, &win, &stack)) };
                if let Some(d0) = ea(&ns) {
                    for &r in &addr_regs {
                        if r == 4 {
                            continue;
                        }
                        ns.gpr[r] = 1;
                        let d1 = ea(&ns);
                        ns.gpr[r] = 0;
                        if let Some(d1) = d1 {
                            let coef = d1.wrapping_sub(d0);
                            if coef != 0 && (want.wrapping_sub(d0)) % coef == 0 {
                                let x = want.wrapping_sub(d0) / coef;
                                if c.mode64 || x <= 0xffff_ffff {
                                    ns.gpr[r] = x;
                                    break;
                                }
                            }
                        }
                    }
                }
            }
            let mut il = mk_il(&ns, &win, &stack);
            // ---- run natively
            self.sb.set_instruction(cpu_bytes);
            self.sb.slice(WIN_OFF, WIN_SIZE).copy_from_slice(&win);
            self.sb.slice(STACK_OFF, WIN_SIZE).copy_from_slice(&stack);
            self.sb.slice(PAD_FLAG_OFF, 8)[0] = 0;
            let (out, fault, _fa, _frip) = self.sb.run_at(native_addr, &ns);
            acc.count("evaluations", 1);
            // the instruction and the pads must be intact (a rip-relative store may hit them)
            if self.sb.code_window() != code_bytes_full {
                acc.count("native_clobbered_code", 1);
                continue;
            }
            let il_end_state = run_pre(&pre, &mut il);
            if fault != 0 {
                acc.count("native_exceptions_skipped", 1);
                continue;
            }
            let pad = self.sb.slice(PAD_FLAG_OFF, 8)[0];
            if pad == 0 {
                acc.count("native_no_pad_reached", 1);
                continue;
            }
            acc.count("nontrivial", 1);
            let state_json = || json!({"gpr": ns.gpr.iter().map(|v| format!("{:#x}", v)).collect::<Vec<_>>(), "rflags": format!("{:#x}", ns.rflags), "mem_pattern": pat});
            let mut report = |acc: &mut Acc, comp: &str, what: String| {
                if violations_here < 6 {
                    acc.violation(format!("C01|{}|{}|{}|{}", arch, mn, comp, form), format!("{} `{}`: {}", hex(il_bytes), mn, what), case(state_json()));
                }
                violations_here += 1;
            };
            // next address
            let native_next = if pad == 1 { il_end } else { il_target };
            match &il_end_state {
                IlEnd::Next(a) => {
                    let a_cmp = if indirect && *a == target_pad { il_target } else { *a };
                    if a_cmp != native_next {
                        report(acc, "next-pc", format!("IL continues at {:#x}, CPU at {} ({:#x})", a, if pad == 1 { "fall-through" } else { "branch target" }, native_next));
                        continue;
                    }
                }
                IlEnd::Fault(f) => {
                    report(acc, &format!("il-fault:{}", f.class()), format!("IL faults with {:?} where the CPU executes normally", f));
                    continue;
                }
                other => {
                    report(acc, "il-end", format!("IL ends with {:?}", other));
                    continue;
                }
            }
            // registers
            let count = if is_shift { Some(shift_count(il_bytes, &ns, c.mode64)) } else { None };
            let opbits = operand_bits(il_bytes, c.mode64);
            let skip_regs = matches!(mn.as_str(), "bsf" | "bsr") && (out.rflags >> 6) & 1 == 1 || matches!(mn.as_str(), "shld" | "shrd") && count.map(|x| x as u32 > opbits).unwrap_or(false);
            if !skip_regs {
                for i in 0..(if c.mode64 { 16 } else { 8 }) {
                    let (name, bits) = if c.mode64 { (GPR64[i], 64) } else { (GPR32[i], 32) };
                    let got = il.get(name).map(|v| v.low_u128() as u64);
                    let exp = if c.mode64 { out.gpr[i] } else { out.gpr[i] & 0xffff_ffff };
                    if got != Some(exp) {
                        let diff = got.unwrap_or(0) ^ exp;
                        let cls = if got.is_none() { "missing" } else if diff & !0xff00 == 0 { "bits8-15" } else if diff & 0xffff_ffff == 0 { "upper32" } else if i == 4 { "stack-pointer" } else { "value" };
                        report(acc, &format!("reg:{}", cls), format!("{} = {:?} in the IL, {:#x} on the CPU (bits {})", name, got.map(|g| format!("{:#x}", g)), exp, bits));
                        break;
                    }
                }
                for i in 0..16 {
                    let got = il.get(&format!("xmm{}", i)).map(|v| v.low_u128());
                    let exp = (out.xmm[i][0] as u128) | ((out.xmm[i][1] as u128) << 64);
                    if got != Some(exp) {
                        report(acc, "xmm", format!("xmm{} = {:x?} in the IL, {:#x} on the CPU", i, got, exp));
                        break;
                    }
                }
            }
            // flags
            let cmp_mask = mask_defined_flags(&mn, count, opbits);
            for (f, bit) in FLAGS {
                if cmp_mask & (1 << bit) == 0 {
                    continue;
                }
                let got = il.get(f).map(|v| v.low_u128() as u64);
                let exp = (out.rflags >> bit) & 1;
                if got != Some(exp) {
                    report(acc, &format!("flag:{}", f), format!("{} = {:?} in the IL, {} on the CPU", f, got, exp));
                }
            }
            // memory: window and stack
            // (the destination of shld/shrd is undefined for a count above the operand size, in memory as in a register)
            for (off, init) in [(WIN_OFF, &win), (STACK_OFF, &stack)] {
                if skip_regs && matches!(mn.as_str(), "shld" | "shrd") {
                    continue;
                }
                let native_mem = self.sb.slice(off, WIN_SIZE);
                let mut bad = None;
                for i in 0..WIN_SIZE {
                    let a = MAP_BASE + off + i as u64;
                    let il_byte = il.mem.get(&a).cloned().unwrap_or(init[i]);
                    if il_byte != native_mem[i] {
                        bad = Some((a, il_byte, native_mem[i]));
                        break;
                    }
                }
                if let Some((a, ib, nb)) = bad {
                    report(acc, if off == WIN_OFF { "memory" } else { "stack-memory" }, format!("byte at {:#x}: IL {:#x}, CPU {:#x}", a, ib, nb));
                }
            }
            // IL stores into the code page (rip-relative operands): the CPU left the page as it was (checked
            // above), so the IL must have stored the bytes that were already there
            let code_range = window_addr..window_addr + (CODE_TAIL + PADS_LEN) as u64;
            for (a, b) in il.mem.iter().filter(|(a, _)| code_range.contains(a)) {
                if !code_image.is_empty() && code_bytes_full[(*a - window_addr) as usize] != *b {
                    report(acc, "memory", format!("byte at {:#x} (code page): IL {:#x}, CPU {:#x}", a, b, code_bytes_full[(*a - window_addr) as usize]));
                    break;
                }
            }
            // IL stores outside every region
            if il.mem.keys().any(|a| !((MAP_BASE + WIN_OFF..MAP_BASE + WIN_OFF + WIN_SIZE as u64).contains(a) || (MAP_BASE + STACK_OFF..MAP_BASE + STACK_OFF + WIN_SIZE as u64).contains(a) || code_range.contains(a))) {
                report(acc, "memory-outside", "IL stores outside the memory the CPU touched".to_string());
            }
            acc.outcome(&(out.gpr[0], out.rflags & 0x8c1, pad));
        }
        if violations_here == 0 {
            acc.count("encodings_agreeing", 1);
        }
    }
}

fn first_address(pre: &Pre, st: &RState) -> Option<u64> {
    for f in &pre.graphs {
        for b in f.blocks() {
            for i in b.instructions() {
                match i.operation() {
                    il::Operation::Load { index, .. } | il::Operation::Store { index, .. } => {
                        return refil::eval(index, st).ok().and_then(|v| v.to_u64());
                    }
                    _ => {}
                }
            }
        }
    }
    None
}

fn strip_prefixes(b: &[u8]) -> (&[u8], bool, bool) {
    // returns (rest starting at opcode, has 66, rex.w)
    let mut i = 0;
    let mut p66 = false;
    while i < b.len() && matches!(b[i], 0x66 | 0x67 | 0xf2 | 0xf3 | 0xf0 | 0x2e | 0x36 | 0x3e | 0x26 | 0x64 | 0x65) {
        if b[i] == 0x66 {
            p66 = true;
        }
        i += 1;
    }
    (&b[i..], p66, false)
}
fn is_rel_branch_bytes(b: &[u8]) -> Option<usize> {
    let (r, _, _) = strip_prefixes(b);
    let r = if !r.is_empty() && (0x40..=0x4f).contains(&r[0]) && r.len() > 1 { &r[1..] } else { r };
    if r.is_empty() {
        return None;
    }
    if r[0] == 0x0f && r.len() > 1 {
        is_rel_branch(&r[..2])
    } else {
        is_rel_branch(&r[..1])
    }
}
fn is_mem_form(b: &[u8]) -> bool {
    let (r, _, _) = strip_prefixes(b);
    let r = if !r.is_empty() && (0x40..=0x4f).contains(&r[0]) && r.len() > 1 { &r[1..] } else { r };
    let m = if r.first() == Some(&0x0f) { r.get(2) } else { r.get(1) };
    m.map(|m| m >> 6 != 3).unwrap_or(false)
}
fn operand_bits(b: &[u8], mode64: bool) -> u32 {
    let (r, p66, _) = strip_prefixes(b);
    let (rexw, r) = if mode64 && !r.is_empty() && (0x40..=0x4f).contains(&r[0]) { (r[0] & 8 != 0, &r[1..]) } else { (false, r) };
    let op = r.first().cloned().unwrap_or(0);
    let byte_op = matches!(op, 0xc0 | 0xd0 | 0xd2) || (op < 0x40 && op & 1 == 0 && op & 7 < 4);
    if byte_op {
        8
    } else if rexw {
        64
    } else if p66 {
        16
    } else {
        32
    }
}
fn shift_count(b: &[u8], ns: &NState, mode64: bool) -> u64 {
    let (r, _, _) = strip_prefixes(b);
    let r = if mode64 && !r.is_empty() && (0x40..=0x4f).contains(&r[0]) { &r[1..] } else { r };
    let bits = operand_bits(b, mode64);
    let m = if bits == 64 { 0x3f } else { 0x1f };
    let raw = match r.first() {
        Some(0xd0) | Some(0xd1) => 1,
        Some(0xc0) | Some(0xc1) => *b.last().unwrap() as u64,
        Some(0x0f) => match r.get(1) {
            Some(0xa4) | Some(0xac) => *b.last().unwrap() as u64,
            _ => ns.gpr[1] & 0xff,
        },
        _ => ns.gpr[1] & 0xff,
    };
    raw & m
}

fn run(ctx: &Ctx) -> Acc {
    let mut acc = Acc::new();
    let sb = match Sandbox::new() {
        Ok(s) => s,
        Err(e) => {
            acc.note(format!("MACHINERY: {}", e));
            acc.cap("native sandbox unavailable");
            return acc;
        }
    };
    let ck = Checker { sb, dis: Dis::new() };
    let thorough = ctx.tier.thorough();
    // diagnostic only: FV_C01_OPCODES=c0,c1,0fa4 restricts a run to those opcodes (reported as a cap)
    let only: Option<Vec<Vec<u8>>> = std::env::var("FV_C01_OPCODES").ok().map(|s| {
        s.split(',').map(|h| (0..h.len() / 2).map(|i| u8::from_str_radix(&h[2 * i..2 * i + 2], 16).unwrap_or(0)).collect()).collect()
    });
    if only.is_some() {
        acc.cap("diagnostic run restricted by FV_C01_OPCODES");
    }
    for mode64 in [true, false] {
        let tails: Vec<u8> = if thorough { vec![0, 1, 2, 3, 4] } else { vec![1, 4] };
        let mut take = false;
        let mut unit = 0u64;
        x86gen::for_each(mode64, thorough, false, &tails, |n, e| {
            if n % 16 == 0 {
                unit += 1;
                take = ctx.mine(unit);
            }
            if !take {
                return;
            }
            if dangerous(&e.opcode, e.modrm) {
                return;
            }
            if let Some(o) = &only {
                if !o.contains(&e.opcode) {
                    return;
                }
            }
            if mode64 && e.opcode.len() == 1 && (0x40..=0x4f).contains(&e.opcode[0]) {
                return; // REX prefixes, covered through `rex`
            }
            if let Some(c) = build_case(e, mode64) {
                ctx.trace(|| format!("{}\t{}", if mode64 { "amd64" } else { "x86" }, json!({"mode64": mode64, "il_bytes": hex(&c.il_bytes), "cpu_bytes": hex(&c.cpu_bytes)})));
                ck.check(&mut acc, &c, thorough);
            }
        });
    }
    if ctx.shard == 0 {
        acc.sample(json!({"mode64": true, "il_bytes": "4801d8", "cpu_bytes": "4801d8", "states": "rax, rbx over the 64-bit boundary alphabet squared x 2 flag valuations"}));
        acc.sample(json!({"mode64": false, "il_bytes": "8b4301", "cpu_bytes": "678b4301", "note": "32-bit mov eax,[ebx+1] checked through its long-mode equivalent"}));
    }
    acc
}

fn replay(case: &Value) -> Acc {
    let mut acc = Acc::new();
    let sb = match Sandbox::new() {
        Ok(s) => s,
        Err(_) => return acc,
    };
    let ck = Checker { sb, dis: Dis::new() };
    let c = Case { mode64: case["mode64"].as_bool().unwrap_or(true), il_bytes: unhex(case["il_bytes"].as_str().unwrap_or("")), cpu_bytes: unhex(case["cpu_bytes"].as_str().unwrap_or("")) };
    ck.check(&mut acc, &c, true);
    acc
}

#[allow(dead_code)]
fn unused() {
    let _ = native::selftest;
}
