//! C19, last clause: "when several objects are linked, each relocated word holds the once-rebased address of the
//! symbol it names". Small-scope exhaustive exploration of link scenarios for `ElfLinker`, for the two machines
//! whose relocations it implements (EM_386 and EM_MIPS, big and little endian): every topology of a main program
//! and up to two shared objects x every assignment of relocations to the relocation slots of every object. The
//! objects are written to a scratch directory by an ELF writer that is independent of goblin; the expected image is
//! computed from the abstract scenario and the base addresses the linker reports.
use crate::report::Acc;
use crate::util::{guarded, panic_class};
use crate::Ctx;
use falcon::loader::{ElfLinkerBuilder, Loader};
use serde_json::{json, Value};
use std::collections::{BTreeMap, BTreeSet};
use std::path::{Path, PathBuf};

const DATA_VADDR: u64 = 0x1000;
const DATA_SIZE: usize = 0x40;
const META_VADDR: u64 = 0x8000;
const NAMES: [&str; 3] = ["main", "libA.so", "libB.so"];

pub const R_32: u8 = 1;
pub const R_MIPS_REL32: u8 = 3;
pub const R_GLOB_DAT: u8 = 6;
pub const R_JMP_SLOT: u8 = 7;
pub const R_RELATIVE: u8 = 8;

#[derive(Clone, Debug, PartialEq)]
pub struct Reloc {
    pub kind: u8,
    pub sym: Option<String>,
}

#[derive(Clone, Debug)]
pub struct Obj {
    pub name: String,
    pub needed: Vec<String>,
    pub defs: Vec<(String, u64)>,
    /// x86: slot k lives at DATA_VADDR + 4k. MIPS: R_MIPS_REL32 slots after the GOT.
    pub relocs: Vec<Reloc>,
    /// MIPS only: external symbols referenced through the GOT (undefined dynamic symbols)
    pub got_syms: Vec<String>,
}

#[derive(Clone, Debug)]
pub struct Scenario {
    pub objs: Vec<Obj>,
    pub do_relocations: bool,
    /// None: EM_386; Some(big_endian): EM_MIPS
    pub mips: Option<bool>,
}

/// What a relocated word must hold after linking.
#[derive(Clone, Debug)]
enum Expect {
    /// base of the containing object + this value
    SelfBase(u32),
    /// once-rebased address of the named symbol
    Symbol(String),
    /// reserved word (GOT[0]): not compared
    Ignore,
}
struct Site {
    vaddr: u64,
    expect: Expect,
    kind: &'static str,
}

struct Out {
    big: bool,
    b: Vec<u8>,
}
impl Out {
    fn u32(&mut self, x: u32) {
        if self.big {
            self.b.extend_from_slice(&x.to_be_bytes())
        } else {
            self.b.extend_from_slice(&x.to_le_bytes())
        }
    }
    fn u16(&mut self, x: u16) {
        if self.big {
            self.b.extend_from_slice(&x.to_be_bytes())
        } else {
            self.b.extend_from_slice(&x.to_le_bytes())
        }
    }
    fn u8(&mut self, x: u8) {
        self.b.push(x)
    }
    fn align(&mut self, n: usize) {
        while self.b.len() % n != 0 {
            self.b.push(0)
        }
    }
    fn pad_to(&mut self, n: usize) {
        while self.b.len() < n {
            self.b.push(0)
        }
    }
}

fn kind_name(k: u8) -> &'static str {
    match k {
        R_32 => "R_386_32",
        R_GLOB_DAT => "R_386_GLOB_DAT",
        R_JMP_SLOT => "R_386_JMP_SLOT",
        R_RELATIVE => "R_386_RELATIVE",
        R_MIPS_REL32 => "R_MIPS_REL32",
        _ => "none",
    }
}

/// (file bytes, image at base 0: addr -> (byte, perm READ=1 WRITE=2 EXEC=4), relocation sites)
fn write_obj(o: &Obj, is_main: bool, mips: Option<bool>) -> (Vec<u8>, BTreeMap<u64, (u8, u32)>, Vec<Site>) {
    let big = mips.unwrap_or(false);
    let word = |x: u32| -> [u8; 4] { if big { x.to_be_bytes() } else { x.to_le_bytes() } };
    // dynamic symbols: defined ones, then the undefined ones (named by relocations or, on MIPS, by the GOT)
    let mut syms: Vec<(String, u64, bool)> = o.defs.iter().map(|(n, v)| (n.clone(), *v, true)).collect();
    for s in o.relocs.iter().filter_map(|r| r.sym.as_ref()).chain(o.got_syms.iter()) {
        if !syms.iter().any(|(n, _, _)| n == s) {
            syms.push((s.clone(), 0, false));
        }
    }
    // ---- data segment and relocation sites
    let mut data: Vec<u8> = (0..DATA_SIZE).map(|k| 0x30u8.wrapping_add(k as u8)).collect();
    let mut sites: Vec<Site> = Vec::new();
    let mut rel_entries: Vec<(u32, u32)> = Vec::new(); // (r_offset, r_info) for DT_REL
    let mut jmprel_entries: Vec<(u32, u32)> = Vec::new();
    let sym_index = |name: &str| -> u32 { syms.iter().position(|(n, _, _)| n == name).map(|i| i as u32 + 1).unwrap_or(0) };
    let mut put = |data: &mut Vec<u8>, slot: usize, v: u32| data[4 * slot..4 * slot + 4].copy_from_slice(&word(v));
    let mut local_gotno = 0u32;
    if mips.is_some() {
        // GOT at the start of the data segment: GOT[0] reserved, GOT[1] a local address, then one entry per dynamic symbol
        local_gotno = 2;
        put(&mut data, 0, 0);
        sites.push(Site { vaddr: DATA_VADDR, expect: Expect::Ignore, kind: "got-reserved" });
        put(&mut data, 1, (DATA_VADDR + 0x24) as u32);
        sites.push(Site { vaddr: DATA_VADDR + 4, expect: Expect::SelfBase((DATA_VADDR + 0x24) as u32), kind: "got-local" });
        for (i, (n, v, defined)) in syms.iter().enumerate() {
            put(&mut data, 2 + i, if *defined { *v as u32 } else { 0 });
            sites.push(Site { vaddr: DATA_VADDR + 4 * (2 + i as u64), expect: Expect::Symbol(n.clone()), kind: if *defined { "got-global-defined" } else { "got-global-undefined" } });
        }
        let first = 2 + syms.len();
        for (k, r) in o.relocs.iter().enumerate() {
            if r.kind != R_MIPS_REL32 {
                continue;
            }
            let slot = first + k;
            let at = DATA_VADDR + 4 * slot as u64;
            match &r.sym {
                None => {
                    let a = (DATA_VADDR + 0x28) as u32;
                    put(&mut data, slot, a);
                    sites.push(Site { vaddr: at, expect: Expect::SelfBase(a), kind: "R_MIPS_REL32-local" });
                    rel_entries.push((at as u32, R_MIPS_REL32 as u32));
                }
                Some(s) => {
                    put(&mut data, slot, 0);
                    sites.push(Site { vaddr: at, expect: Expect::Symbol(s.clone()), kind: "R_MIPS_REL32-symbol" });
                    rel_entries.push((at as u32, (sym_index(s) << 8) | R_MIPS_REL32 as u32));
                }
            }
        }
    } else {
        for (k, r) in o.relocs.iter().enumerate() {
            let at = DATA_VADDR + 4 * k as u64;
            match r.kind {
                R_RELATIVE => {
                    let a = (DATA_VADDR + 0x20 + 4 * k as u64) as u32;
                    put(&mut data, k, a);
                    sites.push(Site { vaddr: at, expect: Expect::SelfBase(a), kind: kind_name(r.kind) });
                    rel_entries.push((at as u32, R_RELATIVE as u32));
                }
                R_32 | R_GLOB_DAT | R_JMP_SLOT => {
                    let s = r.sym.as_ref().unwrap();
                    put(&mut data, k, 0);
                    sites.push(Site { vaddr: at, expect: Expect::Symbol(s.clone()), kind: kind_name(r.kind) });
                    let e = (at as u32, (sym_index(s) << 8) | r.kind as u32);
                    if r.kind == R_JMP_SLOT {
                        jmprel_entries.push(e)
                    } else {
                        rel_entries.push(e)
                    }
                }
                _ => put(&mut data, k, 0),
            }
        }
    }
    // ---- metadata
    let mut dynstr = vec![0u8];
    let mut name_off = Vec::new();
    for (n, _, _) in &syms {
        name_off.push(dynstr.len() as u32);
        dynstr.extend_from_slice(n.as_bytes());
        dynstr.push(0);
    }
    let mut needed_off = Vec::new();
    for n in &o.needed {
        needed_off.push(dynstr.len() as u32);
        dynstr.extend_from_slice(n.as_bytes());
        dynstr.push(0);
    }
    let mut meta = Out { big, b: Vec::new() };
    meta.b.extend_from_slice(&dynstr);
    meta.align(8);
    let dynsym_at = meta.b.len();
    meta.b.extend_from_slice(&[0u8; 16]);
    for (i, (_, v, defined)) in syms.iter().enumerate() {
        meta.u32(name_off[i]);
        meta.u32(*v as u32);
        meta.u32(0);
        meta.u8((1 << 4) | 2); // GLOBAL FUNC
        meta.u8(0);
        meta.u16(if *defined { 1 } else { 0 });
    }
    let hash_at = meta.b.len();
    let nsyms = syms.len() as u32 + 1;
    meta.u32(1);
    meta.u32(nsyms);
    meta.u32(0);
    for _ in 0..nsyms {
        meta.u32(0);
    }
    let rel_at = meta.b.len();
    for (off, info) in &rel_entries {
        meta.u32(*off);
        meta.u32(*info);
    }
    let rel_sz = meta.b.len() - rel_at;
    let jmprel_at = meta.b.len();
    for (off, info) in &jmprel_entries {
        meta.u32(*off);
        meta.u32(*info);
    }
    let jmprel_sz = meta.b.len() - jmprel_at;
    let dynamic_at = meta.b.len();
    let mv = META_VADDR as u32;
    let mut dynent = |m: &mut Out, tag: u32, val: u32| {
        m.u32(tag);
        m.u32(val);
    };
    for off in &needed_off {
        dynent(&mut meta, 1, *off); // DT_NEEDED
    }
    dynent(&mut meta, 5, mv); // DT_STRTAB
    dynent(&mut meta, 10, dynstr.len() as u32); // DT_STRSZ
    dynent(&mut meta, 6, mv + dynsym_at as u32); // DT_SYMTAB
    dynent(&mut meta, 11, 16); // DT_SYMENT
    dynent(&mut meta, 4, mv + hash_at as u32); // DT_HASH
    if rel_sz > 0 {
        dynent(&mut meta, 17, mv + rel_at as u32); // DT_REL
        dynent(&mut meta, 18, rel_sz as u32); // DT_RELSZ
        dynent(&mut meta, 19, 8); // DT_RELENT
    }
    if jmprel_sz > 0 {
        dynent(&mut meta, 23, mv + jmprel_at as u32); // DT_JMPREL
        dynent(&mut meta, 2, jmprel_sz as u32); // DT_PLTRELSZ
        dynent(&mut meta, 20, 17); // DT_PLTREL = DT_REL
    }
    if mips.is_some() {
        dynent(&mut meta, 3, DATA_VADDR as u32); // DT_PLTGOT
        dynent(&mut meta, 0x7000_000a, local_gotno); // DT_MIPS_LOCAL_GOTNO
        dynent(&mut meta, 0x7000_0011, nsyms); // DT_MIPS_SYMTABNO
        dynent(&mut meta, 0x7000_0013, 1); // DT_MIPS_GOTSYM: every real symbol has a GOT entry
    }
    dynent(&mut meta, 0, 0);
    let dynamic_sz = meta.b.len() - dynamic_at;
    // ---- file
    let data_off = 0x100usize;
    let meta_off = 0x200usize;
    let mut f = Out { big, b: Vec::new() };
    f.b.extend_from_slice(&[0x7f, b'E', b'L', b'F', 1, if big { 2 } else { 1 }, 1, 0]);
    f.b.extend_from_slice(&[0; 8]);
    f.u16(if is_main { 2 } else { 3 }); // ET_EXEC / ET_DYN
    f.u16(if mips.is_some() { 8 } else { 3 }); // EM_MIPS / EM_386
    f.u32(1);
    f.u32((DATA_VADDR + 0x30) as u32); // e_entry
    f.u32(52); // phoff
    f.u32(0); // shoff
    f.u32(0);
    f.u16(52);
    f.u16(32);
    f.u16(3);
    f.u16(40);
    f.u16(0);
    f.u16(0);
    let mut phdr = |f: &mut Out, ty: u32, off: usize, vaddr: u64, sz: usize, flags: u32| {
        f.u32(ty);
        f.u32(off as u32);
        f.u32(vaddr as u32);
        f.u32(vaddr as u32);
        f.u32(sz as u32);
        f.u32(sz as u32);
        f.u32(flags);
        f.u32(4);
    };
    phdr(&mut f, 1, data_off, DATA_VADDR, DATA_SIZE, 6);
    phdr(&mut f, 1, meta_off, META_VADDR, meta.b.len(), 4);
    phdr(&mut f, 2, meta_off + dynamic_at, META_VADDR + dynamic_at as u64, dynamic_sz, 4);
    f.pad_to(data_off);
    f.b.extend_from_slice(&data);
    f.pad_to(meta_off);
    f.b.extend_from_slice(&meta.b);
    let mut img = BTreeMap::new();
    for (k, b) in data.iter().enumerate() {
        img.insert(DATA_VADDR + k as u64, (*b, 3u32));
    }
    for (k, b) in meta.b.iter().enumerate() {
        img.insert(META_VADDR + k as u64, (*b, 1u32));
    }
    (f.b, img, sites)
}

pub fn scenario_json(s: &Scenario) -> Value {
    json!({
        "link": true,
        "do_relocations": s.do_relocations,
        "mips": s.mips,
        "objs": s.objs.iter().map(|o| json!({
            "name": o.name, "needed": o.needed, "got_syms": o.got_syms,
            "defs": o.defs.iter().map(|(n, v)| json!([n, v])).collect::<Vec<_>>(),
            "relocs": o.relocs.iter().map(|r| json!([r.kind, r.sym])).collect::<Vec<_>>(),
        })).collect::<Vec<_>>(),
    })
}

pub fn scenario_parse(v: &Value) -> Scenario {
    let strs = |x: &Value| -> Vec<String> { x.as_array().map(|a| a.iter().map(|y| y.as_str().unwrap().to_string()).collect()).unwrap_or_default() };
    Scenario {
        do_relocations: v["do_relocations"].as_bool().unwrap_or(true),
        mips: v["mips"].as_bool(),
        objs: v["objs"]
            .as_array()
            .unwrap()
            .iter()
            .map(|o| Obj {
                name: o["name"].as_str().unwrap().to_string(),
                needed: strs(&o["needed"]),
                got_syms: strs(&o["got_syms"]),
                defs: o["defs"].as_array().unwrap().iter().map(|d| (d[0].as_str().unwrap().to_string(), d[1].as_u64().unwrap())).collect(),
                relocs: o["relocs"].as_array().unwrap().iter().map(|r| Reloc { kind: r[0].as_u64().unwrap() as u8, sym: r[1].as_str().map(|s| s.to_string()) }).collect(),
            })
            .collect(),
    }
}

struct Linked {
    bases: BTreeMap<String, u64>,
    image: Result<BTreeMap<u64, (u8, u32)>, String>,
    program_entry: u64,
    entries: BTreeSet<u64>,
    union_entries: BTreeSet<u64>,
    symbols: BTreeSet<(String, u64)>,
}

pub fn check(acc: &mut Acc, sc: &Scenario, dir: &Path) {
    acc.count("evaluations", 1);
    acc.count(if sc.mips.is_some() { "link_scenarios_mips" } else { "link_scenarios_x86" }, 1);
    let case = || scenario_json(sc);
    let machine = match sc.mips {
        None => "x86",
        Some(true) => "mips",
        Some(false) => "mipsel",
    };
    let big = sc.mips.unwrap_or(false);
    let mut images: BTreeMap<String, BTreeMap<u64, (u8, u32)>> = BTreeMap::new();
    let mut all_sites: BTreeMap<String, Vec<Site>> = BTreeMap::new();
    for (i, o) in sc.objs.iter().enumerate() {
        let (bytes, img, sites) = write_obj(o, i == 0, sc.mips);
        if std::fs::write(dir.join(&o.name), &bytes).is_err() {
            acc.note("cannot write scratch ELF files; link scenarios skipped".to_string());
            return;
        }
        images.insert(o.name.clone(), img);
        all_sites.insert(o.name.clone(), sites);
    }
    let main_path: PathBuf = dir.join(&sc.objs[0].name);
    let do_rel = sc.do_relocations;
    let dir_buf = dir.to_path_buf();
    let r = guarded(move || -> Result<Linked, String> {
        let linker = ElfLinkerBuilder::new(main_path).do_relocations(do_rel).ld_paths(Some(vec![dir_buf])).link().map_err(|e| format!("{}", e))?;
        let bases: BTreeMap<String, u64> = linker.loaded().iter().map(|(n, e)| (n.clone(), e.base_address())).collect();
        let mem = linker.memory().map_err(|e| format!("memory(): {}", e))?;
        let mut m = BTreeMap::new();
        let mut overlap = None;
        for (a, s) in mem.sections() {
            for (k, b) in s.data().iter().enumerate() {
                if m.insert(a.wrapping_add(k as u64), (*b, s.permissions().bits())).is_some() {
                    overlap = Some(a.wrapping_add(k as u64));
                }
            }
        }
        let entries: BTreeSet<u64> = linker.function_entries().map_err(|e| format!("function_entries(): {}", e))?.iter().map(|f| f.address()).collect();
        let mut union_entries = BTreeSet::new();
        for (_, e) in linker.loaded() {
            union_entries.extend(e.function_entries().map_err(|e| format!("{}", e))?.iter().map(|f| f.address()));
        }
        let symbols = Loader::symbols(&linker).iter().map(|s| (s.name().to_string(), s.address())).collect();
        Ok(Linked { bases, image: overlap.map(|a| Err(format!("overlap at {:#x}", a))).unwrap_or(Ok(m)), program_entry: linker.program_entry(), entries, union_entries, symbols })
    });
    let l = match r {
        Err(p) => {
            acc.violation(format!("C19|link|{}|panic:{}", machine, panic_class(&p)), format!("ElfLinker panicked: {}", p), case());
            return;
        }
        Ok(Err(e)) => {
            // An error is not a wrong word. It is recorded, not judged (the statement speaks of the linked image).
            acc.count("link_errors", 1);
            acc.outcome(&("link-error", e.chars().take(30).collect::<String>()));
            return;
        }
        Ok(Ok(l)) => l,
    };
    acc.count("nontrivial", 1);
    // every object loaded, main at 0
    for o in &sc.objs {
        if !l.bases.contains_key(&o.name) {
            acc.violation(format!("C19|link|{}|object-not-loaded|{}", machine, o.name), format!("{} is needed but not loaded: {:?}", o.name, l.bases), case());
            return;
        }
    }
    if l.bases[&sc.objs[0].name] != 0 {
        acc.violation(format!("C19|link|{}|main-base", machine), format!("main loaded at {:#x}", l.bases[&sc.objs[0].name]), case());
    }
    // expected image
    let mut exp: BTreeMap<u64, (u8, u32)> = BTreeMap::new();
    for o in &sc.objs {
        let b = l.bases[&o.name];
        for (a, v) in &images[&o.name] {
            if exp.insert(a + b, *v).is_some() {
                acc.violation(format!("C19|link|{}|objects-overlap", machine), format!("bases {:x?} make the objects overlap", l.bases), case());
                return;
            }
        }
    }
    let definer = |s: &str| -> Option<&Obj> { sc.objs.iter().find(|d| d.defs.iter().any(|(n, _)| n == s)) };
    let mut relocated: BTreeMap<u64, (Option<u32>, String)> = BTreeMap::new();
    if sc.do_relocations {
        for o in &sc.objs {
            let b = l.bases[&o.name];
            for site in &all_sites[&o.name] {
                let at = b + site.vaddr;
                let (want, target) = match &site.expect {
                    Expect::Ignore => (None, "reserved".to_string()),
                    Expect::SelfBase(a) => (Some((b as u32).wrapping_add(*a)), "self".to_string()),
                    Expect::Symbol(s) => match definer(s) {
                        Some(d) => {
                            let v = d.defs.iter().find(|(n, _)| n == s).unwrap().1;
                            (Some(l.bases[&d.name].wrapping_add(v) as u32), if d.name == o.name { "own-symbol".to_string() } else { format!("symbol-of:{}", d.name) })
                        }
                        None => continue,
                    },
                };
                if let Some(w) = want {
                    let bytes = if big { w.to_be_bytes() } else { w.to_le_bytes() };
                    for (i, byte) in bytes.iter().enumerate() {
                        exp.get_mut(&(at + i as u64)).unwrap().0 = *byte;
                    }
                }
                relocated.insert(at, (want, format!("{}|in:{}|{}", site.kind, o.name, target)));
            }
        }
    }
    match &l.image {
        Err(e) => acc.violation(format!("C19|link|{}|memory|overlap", machine), e.clone(), case()),
        Ok(got) => {
            // relocated words first (keyed by relocation type and where the symbol lives)
            for (at, (w, f)) in &relocated {
                let w = match w {
                    Some(w) => *w,
                    None => continue,
                };
                let g: Vec<Option<u8>> = (0..4).map(|i| got.get(&(at + i)).map(|x| x.0)).collect();
                if g.iter().any(|x| x.is_none()) {
                    acc.violation(format!("C19|link|{}|relocated-word|unmapped|{}", machine, f), format!("word at {:#x} is not mapped", at), case());
                    continue;
                }
                let gb = [g[0].unwrap(), g[1].unwrap(), g[2].unwrap(), g[3].unwrap()];
                let gw = if big { u32::from_be_bytes(gb) } else { u32::from_le_bytes(gb) };
                if gw != w {
                    acc.violation(format!("C19|link|{}|relocated-word|wrong|{}", machine, f), format!("word at {:#x} holds {:#x}, the once-rebased address is {:#x} (bases {:x?})", at, gw, w, l.bases), case());
                }
            }
            // everything else
            let in_reloc = |a: u64| relocated.keys().any(|r| (*r..*r + 4).contains(&a));
            if let Some((a, _)) = got.iter().find(|(a, _)| !exp.contains_key(a)) {
                acc.violation(format!("C19|link|{}|memory|extra-byte-mapped", machine), format!("byte mapped at {:#x} belongs to no object", a), case());
            } else if let Some((a, _)) = exp.iter().find(|(a, _)| !got.contains_key(a)) {
                acc.violation(format!("C19|link|{}|memory|byte-missing", machine), format!("byte at {:#x} missing", a), case());
            } else if let Some((a, (g, e))) = got.iter().zip(exp.iter()).filter(|(g, _)| !in_reloc(*g.0)).find(|(g, e)| g.1 != e.1).map(|(g, e)| (*g.0, (*g.1, *e.1))) {
                let what = if g.0 != e.0 { "wrong-byte" } else { "wrong-permissions" };
                acc.violation(format!("C19|link|{}|memory|{}", machine, what), format!("at {:#x}: ({:#x},{:#b}) expected ({:#x},{:#b})", a, g.0, g.1, e.0, e.1), case());
            }
        }
    }
    if l.program_entry != DATA_VADDR + 0x30 {
        acc.violation(format!("C19|link|{}|program-entry", machine), format!("{:#x} expected {:#x}", l.program_entry, DATA_VADDR + 0x30), case());
    }
    if l.entries != l.union_entries {
        acc.violation(format!("C19|link|{}|function-entries", machine), format!("{:x?} is not the union of the objects' entries {:x?}", l.entries, l.union_entries), case());
    }
    for o in &sc.objs {
        for (n, v) in &o.defs {
            let want = l.bases[&o.name] + v;
            if !l.entries.contains(&want) {
                acc.violation(format!("C19|link|{}|function-entries|defined-symbol-missing", machine), format!("{} at {:#x} is not an entry: {:x?}", n, want, l.entries), case());
            }
            if !l.symbols.contains(&(n.clone(), want)) {
                acc.violation(format!("C19|link|{}|symbols|defined-symbol", machine), format!("{} expected at {:#x}: {:x?}", n, want, l.symbols.iter().filter(|(m, _)| m == n).collect::<Vec<_>>()), case());
            }
        }
    }
    acc.outcome(&("linked", machine, l.bases.len(), relocated.values().map(|(w, f)| (*w, f.clone())).collect::<Vec<_>>()));
}

type Topo = (Vec<&'static str>, Vec<&'static str>, bool);
fn topologies() -> Vec<Topo> {
    vec![
        (vec!["libA.so"], vec![], false),
        (vec!["libA.so", "libB.so"], vec![], true),
        (vec!["libA.so"], vec!["libB.so"], true),
        (vec!["libA.so", "libB.so"], vec!["libB.so"], true),
        (vec!["libB.so", "libA.so"], vec![], true),
    ]
}
const DEFS: [&[(&str, u64)]; 3] = [&[("m0", 0x1024)], &[("a0", 0x1028), ("a1", 0x102c)], &[("b0", 0x1034)]];
/// EM_386 scenarios only: `d0` is defined by the main program AND by libA. Every reference to it, from any object
/// (including libA itself, whose own dynamic symbol table lists it as defined), names the main program's definition:
/// the executable comes first in every symbol lookup order.
const DEFS_DUP: [&[(&str, u64)]; 3] = [&[("m0", 0x1024), ("d0", 0x1030)], &[("a0", 0x1028), ("a1", 0x102c), ("d0", 0x1038)], &[("b0", 0x1034)]];

/// odometer over `dims`
fn for_each_index(dims: &[usize], mut f: impl FnMut(&[usize])) {
    let mut idx = vec![0usize; dims.len()];
    loop {
        f(&idx);
        let mut k = 0;
        loop {
            if k == dims.len() {
                return;
            }
            idx[k] += 1;
            if idx[k] < dims[k] {
                break;
            }
            idx[k] = 0;
            k += 1;
        }
    }
}

/// All scenarios of the tier, in a fixed order.
pub fn scenarios(thorough: bool) -> Vec<Scenario> {
    let mut out = Vec::new();
    // ---- EM_386
    for (main_needed, a_needed, has_b) in &topologies() {
        let present: Vec<usize> = if *has_b { vec![0, 1, 2] } else { vec![0, 1] };
        let mut syms: Vec<String> = present.iter().flat_map(|&i| DEFS_DUP[i].iter().map(|(n, _)| n.to_string())).collect();
        syms.sort();
        syms.dedup();
        let mut options: Vec<Reloc> = vec![Reloc { kind: 0, sym: None }, Reloc { kind: R_RELATIVE, sym: None }];
        for k in [R_GLOB_DAT, R_JMP_SLOT, R_32] {
            for s in &syms {
                options.push(Reloc { kind: k, sym: Some(s.clone()) });
            }
        }
        // slots per object: quick 1/1/1, thorough 2/2/1
        let slots: Vec<usize> = present.iter().map(|&i| if thorough && i < 2 { 2 } else { 1 }).collect();
        let dims: Vec<usize> = vec![options.len(); slots.iter().sum()];
        let needed = |i: usize| -> Vec<String> {
            match i {
                0 => main_needed.iter().map(|s| s.to_string()).collect(),
                1 => a_needed.iter().map(|s| s.to_string()).collect(),
                _ => vec![],
            }
        };
        let mut last = None;
        for_each_index(&dims, |idx| {
            let mut objs = Vec::new();
            let mut p = 0;
            for (j, &i) in present.iter().enumerate() {
                let relocs: Vec<Reloc> = (0..slots[j]).map(|_| { p += 1; options[idx[p - 1]].clone() }).collect();
                objs.push(Obj { name: NAMES[i].to_string(), needed: needed(i), defs: DEFS_DUP[i].iter().map(|(n, v)| (n.to_string(), *v)).collect(), relocs, got_syms: vec![] });
            }
            let sc = Scenario { objs, do_relocations: true, mips: None };
            last = Some(sc.clone());
            out.push(sc);
        });
        // one scenario without relocation processing
        let mut plain = last.unwrap();
        plain.do_relocations = false;
        out.push(plain);
    }
    // ---- EM_MIPS, both byte orders: per object {no external GOT symbol, each external symbol} x
    //      {no REL32, local REL32, REL32 naming each symbol of the link}
    for big in [true, false] {
        for (main_needed, a_needed, has_b) in &topologies() {
            let present: Vec<usize> = if *has_b { vec![0, 1, 2] } else { vec![0, 1] };
            let syms: Vec<String> = present.iter().flat_map(|&i| DEFS[i].iter().map(|(n, _)| n.to_string())).collect();
            let mut rel_opts: Vec<Option<Reloc>> = vec![None, Some(Reloc { kind: R_MIPS_REL32, sym: None })];
            for s in &syms {
                rel_opts.push(Some(Reloc { kind: R_MIPS_REL32, sym: Some(s.clone()) }));
            }
            // per object: (got external symbol option, rel32 option); the last object only gets the GOT choice in quick
            let mut dims = Vec::new();
            for (j, _) in present.iter().enumerate() {
                dims.push(syms.len() + 1);
                dims.push(if thorough || j < 2 { rel_opts.len() } else { 1 });
            }
            let needed = |i: usize| -> Vec<String> {
                match i {
                    0 => main_needed.iter().map(|s| s.to_string()).collect(),
                    1 => a_needed.iter().map(|s| s.to_string()).collect(),
                    _ => vec![],
                }
            };
            let mut last = None;
            for_each_index(&dims, |idx| {
                let mut objs = Vec::new();
                for (j, &i) in present.iter().enumerate() {
                    let own: Vec<String> = DEFS[i].iter().map(|(n, _)| n.to_string()).collect();
                    let g = idx[2 * j];
                    let got_syms: Vec<String> = if g == 0 || own.contains(&syms[g - 1]) { vec![] } else { vec![syms[g - 1].clone()] };
                    if g != 0 && own.contains(&syms[g - 1]) {
                        return; // own symbols are always in the GOT: this choice duplicates g == 0
                    }
                    let relocs: Vec<Reloc> = rel_opts[idx[2 * j + 1]].iter().cloned().collect();
                    objs.push(Obj { name: NAMES[i].to_string(), needed: needed(i), defs: DEFS[i].iter().map(|(n, v)| (n.to_string(), *v)).collect(), relocs, got_syms });
                }
                let sc = Scenario { objs, do_relocations: true, mips: Some(big) };
                last = Some(sc.clone());
                out.push(sc);
            });
            let mut plain = last.unwrap();
            plain.do_relocations = false;
            out.push(plain);
        }
    }
    out
}

pub fn scratch_dir(ctx: &Ctx) -> PathBuf {
    let d = crate::report::verif_dir().join("target").join("tmp").join(format!("c19-link-{}-{}", std::process::id(), ctx.shard));
    let _ = std::fs::create_dir_all(&d);
    d
}
