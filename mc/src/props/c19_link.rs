//! C19, last clause: "when several objects are linked, each relocated word holds the once-rebased address of the
//! symbol it names". Small-scope exhaustive exploration of link scenarios for `ElfLinker` (EM_386, the
//! relocation types the linker implements): every topology of a main program and up to two shared objects x
//! every assignment of relocations to the relocation slots of every object. The objects are written to a
//! scratch directory by an ELF writer that is independent of goblin; the expected image is computed from the
//! abstract scenario and the base addresses the linker reports.
use crate::report::Acc;
use crate::util::{guarded, panic_class};
use crate::Ctx;
use falcon::loader::{ElfLinkerBuilder, Loader};
use serde_json::{json, Value};
use std::collections::{BTreeMap, BTreeSet};
use std::path::{Path, PathBuf};

const DATA_VADDR: u64 = 0x1000;
const DATA_SIZE: usize = 0x40;
const META_VADDR: u64 = 0x8000;
const NAMES: [&str; 3] = ["main", "libA.so", "libB.so"];

pub const R_32: u8 = 1;
pub const R_GLOB_DAT: u8 = 6;
pub const R_JMP_SLOT: u8 = 7;
pub const R_RELATIVE: u8 = 8;

#[derive(Clone, Debug, PartialEq)]
pub struct Reloc {
    pub kind: u8,
    pub sym: Option<String>,
}

#[derive(Clone, Debug)]
pub struct Obj {
    pub name: String,
    pub needed: Vec<String>,
    pub defs: Vec<(String, u64)>,
    pub relocs: Vec<Reloc>, // slot k lives at DATA_VADDR + 4k
}

#[derive(Clone, Debug)]
pub struct Scenario {
    pub objs: Vec<Obj>,
    pub do_relocations: bool,
}

fn le32(v: &mut Vec<u8>, x: u32) {
    v.extend_from_slice(&x.to_le_bytes())
}
fn le16(v: &mut Vec<u8>, x: u16) {
    v.extend_from_slice(&x.to_le_bytes())
}

fn initial_word(slot: usize, r: &Reloc) -> u32 {
    if r.kind == R_RELATIVE {
        (DATA_VADDR + 0x20 + 4 * slot as u64) as u32
    } else {
        0
    }
}

/// (file bytes, image at base 0: addr -> (byte, perm READ=1 WRITE=2 EXEC=4))
fn write_obj(o: &Obj, is_main: bool) -> (Vec<u8>, BTreeMap<u64, (u8, u32)>) {
    // data
    let mut data: Vec<u8> = (0..DATA_SIZE).map(|k| 0x30u8.wrapping_add(k as u8)).collect();
    for (k, r) in o.relocs.iter().enumerate() {
        data[4 * k..4 * k + 4].copy_from_slice(&initial_word(k, r).to_le_bytes());
    }
    // dynamic symbols: defined ones, then the undefined ones named by relocations
    let mut syms: Vec<(String, u64, bool)> = o.defs.iter().map(|(n, v)| (n.clone(), *v, true)).collect();
    for r in &o.relocs {
        if let Some(s) = &r.sym {
            if !syms.iter().any(|(n, _, _)| n == s) {
                syms.push((s.clone(), 0, false));
            }
        }
    }
    let mut dynstr = vec![0u8];
    let mut name_off = Vec::new();
    for (n, _, _) in &syms {
        name_off.push(dynstr.len() as u32);
        dynstr.extend_from_slice(n.as_bytes());
        dynstr.push(0);
    }
    let mut needed_off = Vec::new();
    for n in &o.needed {
        needed_off.push(dynstr.len() as u32);
        dynstr.extend_from_slice(n.as_bytes());
        dynstr.push(0);
    }
    let mut meta: Vec<u8> = Vec::new();
    meta.extend_from_slice(&dynstr);
    while meta.len() % 8 != 0 {
        meta.push(0)
    }
    let dynsym_at = meta.len();
    meta.extend_from_slice(&[0u8; 16]);
    for (i, (_, v, defined)) in syms.iter().enumerate() {
        le32(&mut meta, name_off[i]);
        le32(&mut meta, *v as u32);
        le32(&mut meta, 0);
        meta.push((1 << 4) | 2); // GLOBAL FUNC
        meta.push(0);
        le16(&mut meta, if *defined { 1 } else { 0 });
    }
    let hash_at = meta.len();
    let nsyms = syms.len() as u32 + 1;
    le32(&mut meta, 1);
    le32(&mut meta, nsyms);
    le32(&mut meta, 0);
    for _ in 0..nsyms {
        le32(&mut meta, 0);
    }
    let sym_index = |name: &str| -> u32 { syms.iter().position(|(n, _, _)| n == name).map(|i| i as u32 + 1).unwrap_or(0) };
    let rel_at = meta.len();
    for (k, r) in o.relocs.iter().enumerate() {
        if r.kind == R_JMP_SLOT || r.kind == 0 {
            continue;
        }
        le32(&mut meta, (DATA_VADDR + 4 * k as u64) as u32);
        le32(&mut meta, (r.sym.as_deref().map(sym_index).unwrap_or(0) << 8) | r.kind as u32);
    }
    let rel_sz = meta.len() - rel_at;
    let jmprel_at = meta.len();
    for (k, r) in o.relocs.iter().enumerate() {
        if r.kind != R_JMP_SLOT {
            continue;
        }
        le32(&mut meta, (DATA_VADDR + 4 * k as u64) as u32);
        le32(&mut meta, (r.sym.as_deref().map(sym_index).unwrap_or(0) << 8) | r.kind as u32);
    }
    let jmprel_sz = meta.len() - jmprel_at;
    let dynamic_at = meta.len();
    let mut dynent = |m: &mut Vec<u8>, tag: u32, val: u32| {
        le32(m, tag);
        le32(m, val);
    };
    for off in &needed_off {
        dynent(&mut meta, 1, *off); // DT_NEEDED
    }
    dynent(&mut meta, 5, (META_VADDR as usize + 0) as u32); // DT_STRTAB
    dynent(&mut meta, 10, dynstr.len() as u32); // DT_STRSZ
    dynent(&mut meta, 6, (META_VADDR as usize + dynsym_at) as u32); // DT_SYMTAB
    dynent(&mut meta, 11, 16); // DT_SYMENT
    dynent(&mut meta, 4, (META_VADDR as usize + hash_at) as u32); // DT_HASH
    if rel_sz > 0 {
        dynent(&mut meta, 17, (META_VADDR as usize + rel_at) as u32); // DT_REL
        dynent(&mut meta, 18, rel_sz as u32); // DT_RELSZ
        dynent(&mut meta, 19, 8); // DT_RELENT
    }
    if jmprel_sz > 0 {
        dynent(&mut meta, 23, (META_VADDR as usize + jmprel_at) as u32); // DT_JMPREL
        dynent(&mut meta, 2, jmprel_sz as u32); // DT_PLTRELSZ
        dynent(&mut meta, 20, 17); // DT_PLTREL = DT_REL
    }
    dynent(&mut meta, 0, 0);
    let dynamic_sz = meta.len() - dynamic_at;
    // file
    let data_off = 0x100usize;
    let meta_off = 0x200usize;
    let mut f: Vec<u8> = Vec::new();
    f.extend_from_slice(&[0x7f, b'E', b'L', b'F', 1, 1, 1, 0]);
    f.extend_from_slice(&[0; 8]);
    le16(&mut f, if is_main { 2 } else { 3 }); // ET_EXEC / ET_DYN
    le16(&mut f, 3); // EM_386
    le32(&mut f, 1);
    le32(&mut f, (DATA_VADDR + 0x30) as u32); // e_entry
    le32(&mut f, 52); // phoff
    le32(&mut f, 0); // shoff
    le32(&mut f, 0);
    le16(&mut f, 52);
    le16(&mut f, 32);
    le16(&mut f, 3);
    le16(&mut f, 40);
    le16(&mut f, 0);
    le16(&mut f, 0);
    let mut phdr = |f: &mut Vec<u8>, ty: u32, off: usize, vaddr: u64, sz: usize, flags: u32| {
        le32(f, ty);
        le32(f, off as u32);
        le32(f, vaddr as u32);
        le32(f, vaddr as u32);
        le32(f, sz as u32);
        le32(f, sz as u32);
        le32(f, flags);
        le32(f, 4);
    };
    phdr(&mut f, 1, data_off, DATA_VADDR, DATA_SIZE, 6);
    phdr(&mut f, 1, meta_off, META_VADDR, meta.len(), 4);
    phdr(&mut f, 2, meta_off + dynamic_at, META_VADDR + dynamic_at as u64, dynamic_sz, 4);
    while f.len() < data_off {
        f.push(0)
    }
    f.extend_from_slice(&data);
    while f.len() < meta_off {
        f.push(0)
    }
    f.extend_from_slice(&meta);
    let mut img = BTreeMap::new();
    for (k, b) in data.iter().enumerate() {
        img.insert(DATA_VADDR + k as u64, (*b, 3u32));
    }
    for (k, b) in meta.iter().enumerate() {
        img.insert(META_VADDR + k as u64, (*b, 1u32));
    }
    (f, img)
}

pub fn scenario_json(s: &Scenario) -> Value {
    json!({
        "link": true,
        "do_relocations": s.do_relocations,
        "objs": s.objs.iter().map(|o| json!({
            "name": o.name, "needed": o.needed,
            "defs": o.defs.iter().map(|(n, v)| json!([n, v])).collect::<Vec<_>>(),
            "relocs": o.relocs.iter().map(|r| json!([r.kind, r.sym])).collect::<Vec<_>>(),
        })).collect::<Vec<_>>(),
    })
}

pub fn scenario_parse(v: &Value) -> Scenario {
    Scenario {
        do_relocations: v["do_relocations"].as_bool().unwrap_or(true),
        objs: v["objs"]
            .as_array()
            .unwrap()
            .iter()
            .map(|o| Obj {
                name: o["name"].as_str().unwrap().to_string(),
                needed: o["needed"].as_array().unwrap().iter().map(|x| x.as_str().unwrap().to_string()).collect(),
                defs: o["defs"].as_array().unwrap().iter().map(|d| (d[0].as_str().unwrap().to_string(), d[1].as_u64().unwrap())).collect(),
                relocs: o["relocs"].as_array().unwrap().iter().map(|r| Reloc { kind: r[0].as_u64().unwrap() as u8, sym: r[1].as_str().map(|s| s.to_string()) }).collect(),
            })
            .collect(),
    }
}

fn kind_name(k: u8) -> &'static str {
    match k {
        R_32 => "R_386_32",
        R_GLOB_DAT => "R_386_GLOB_DAT",
        R_JMP_SLOT => "R_386_JMP_SLOT",
        R_RELATIVE => "R_386_RELATIVE",
        _ => "none",
    }
}

struct Linked {
    bases: BTreeMap<String, u64>,
    image: Result<BTreeMap<u64, (u8, u32)>, String>,
    program_entry: u64,
    entries: BTreeSet<u64>,
    union_entries: BTreeSet<u64>,
    symbols: BTreeSet<(String, u64)>,
}

pub fn check(acc: &mut Acc, sc: &Scenario, dir: &Path) {
    acc.count("evaluations", 1);
    acc.count("link_scenarios", 1);
    let case = || scenario_json(sc);
    let mut images: BTreeMap<String, BTreeMap<u64, (u8, u32)>> = BTreeMap::new();
    for (i, o) in sc.objs.iter().enumerate() {
        let (bytes, img) = write_obj(o, i == 0);
        if std::fs::write(dir.join(&o.name), &bytes).is_err() {
            acc.note("cannot write scratch ELF files; link scenarios skipped".to_string());
            return;
        }
        images.insert(o.name.clone(), img);
    }
    let main_path: PathBuf = dir.join(&sc.objs[0].name);
    let do_rel = sc.do_relocations;
    let dir_buf = dir.to_path_buf();
    let r = guarded(move || -> Result<Linked, String> {
        let linker = ElfLinkerBuilder::new(main_path).do_relocations(do_rel).ld_paths(Some(vec![dir_buf])).link().map_err(|e| format!("{}", e))?;
        let bases: BTreeMap<String, u64> = linker.loaded().iter().map(|(n, e)| (n.clone(), e.base_address())).collect();
        let mem = linker.memory().map_err(|e| format!("memory(): {}", e))?;
        let mut m = BTreeMap::new();
        let mut overlap = None;
        for (a, s) in mem.sections() {
            for (k, b) in s.data().iter().enumerate() {
                if m.insert(a.wrapping_add(k as u64), (*b, s.permissions().bits())).is_some() {
                    overlap = Some(a.wrapping_add(k as u64));
                }
            }
        }
        let entries: BTreeSet<u64> = linker.function_entries().map_err(|e| format!("function_entries(): {}", e))?.iter().map(|f| f.address()).collect();
        let mut union_entries = BTreeSet::new();
        for (_, e) in linker.loaded() {
            union_entries.extend(e.function_entries().map_err(|e| format!("{}", e))?.iter().map(|f| f.address()));
        }
        let symbols = Loader::symbols(&linker).iter().map(|s| (s.name().to_string(), s.address())).collect();
        Ok(Linked { bases, image: overlap.map(|a| Err(format!("overlap at {:#x}", a))).unwrap_or(Ok(m)), program_entry: linker.program_entry(), entries, union_entries, symbols })
    });
    let form = |o: &Obj, k: usize| -> String {
        let r = &o.relocs[k];
        let target = match &r.sym {
            None => "none".to_string(),
            Some(s) => {
                let definer = sc.objs.iter().find(|x| x.defs.iter().any(|(n, _)| n == s)).map(|x| x.name.clone()).unwrap_or_default();
                if definer == o.name {
                    "own-symbol".to_string()
                } else {
                    // loaded before or after the referencing object?
                    format!("symbol-of:{}", definer)
                }
            }
        };
        format!("{}|in:{}|{}", kind_name(r.kind), o.name, target)
    };
    let l = match r {
        Err(p) => {
            acc.violation(format!("C19|link|panic:{}", panic_class(&p)), format!("ElfLinker panicked: {}", p), case());
            return;
        }
        Ok(Err(e)) => {
            // An error is not a wrong word. It is recorded, not judged (the statement speaks of the linked image).
            acc.count("link_errors", 1);
            acc.outcome(&("link-error", e.chars().take(30).collect::<String>()));
            return;
        }
        Ok(Ok(l)) => l,
    };
    acc.count("nontrivial", 1);
    // every object loaded, at pairwise distinct bases, main at 0
    for o in &sc.objs {
        if !l.bases.contains_key(&o.name) {
            acc.violation(format!("C19|link|object-not-loaded|{}", o.name), format!("{} is needed but not loaded: {:?}", o.name, l.bases), case());
            return;
        }
    }
    if l.bases[&sc.objs[0].name] != 0 {
        acc.violation("C19|link|main-base".to_string(), format!("main loaded at {:#x}", l.bases[&sc.objs[0].name]), case());
    }
    // expected image
    let mut exp: BTreeMap<u64, (u8, u32)> = BTreeMap::new();
    for o in &sc.objs {
        let b = l.bases[&o.name];
        for (a, v) in &images[&o.name] {
            if exp.insert(a + b, *v).is_some() {
                acc.violation("C19|link|objects-overlap".to_string(), format!("bases {:x?} make the objects overlap", l.bases), case());
                return;
            }
        }
    }
    let mut relocated: BTreeMap<u64, (u32, String)> = BTreeMap::new();
    if sc.do_relocations {
        for o in &sc.objs {
            let b = l.bases[&o.name];
            for (k, r) in o.relocs.iter().enumerate() {
                let want: Option<u32> = match r.kind {
                    R_RELATIVE => Some((b as u32).wrapping_add(initial_word(k, r))),
                    R_32 | R_GLOB_DAT | R_JMP_SLOT => {
                        let s = r.sym.as_ref().unwrap();
                        sc.objs.iter().find_map(|d| d.defs.iter().find(|(n, _)| n == s).map(|(_, v)| (l.bases[&d.name].wrapping_add(*v)) as u32))
                    }
                    _ => None,
                };
                if let Some(w) = want {
                    let at = b + DATA_VADDR + 4 * k as u64;
                    for (i, byte) in w.to_le_bytes().iter().enumerate() {
                        exp.get_mut(&(at + i as u64)).unwrap().0 = *byte;
                    }
                    relocated.insert(at, (w, form(o, k)));
                }
            }
        }
    }
    match &l.image {
        Err(e) => acc.violation("C19|link|memory|overlap".to_string(), e.clone(), case()),
        Ok(got) => {
            // relocated words first (keyed by relocation type and where the symbol lives)
            for (at, (w, f)) in &relocated {
                let g: Vec<Option<u8>> = (0..4).map(|i| got.get(&(at + i)).map(|x| x.0)).collect();
                if g.iter().any(|x| x.is_none()) {
                    acc.violation(format!("C19|link|relocated-word|unmapped|{}", f), format!("word at {:#x} is not mapped", at), case());
                    continue;
                }
                let gw = u32::from_le_bytes([g[0].unwrap(), g[1].unwrap(), g[2].unwrap(), g[3].unwrap()]);
                if gw != *w {
                    acc.violation(format!("C19|link|relocated-word|wrong|{}", f), format!("word at {:#x} holds {:#x}, the once-rebased address is {:#x} (bases {:x?})", at, gw, w, l.bases), case());
                }
            }
            // everything else
            let in_reloc = |a: u64| relocated.keys().any(|r| (*r..*r + 4).contains(&a));
            if let Some((a, _)) = got.iter().find(|(a, _)| !exp.contains_key(a)) {
                acc.violation("C19|link|memory|extra-byte-mapped".to_string(), format!("byte mapped at {:#x} belongs to no object", a), case());
            } else if let Some((a, _)) = exp.iter().find(|(a, _)| !got.contains_key(a)) {
                acc.violation("C19|link|memory|byte-missing".to_string(), format!("byte at {:#x} missing", a), case());
            } else if let Some((a, (g, e))) = got.iter().zip(exp.iter()).filter(|(g, _)| !in_reloc(*g.0)).find(|(g, e)| g.1 != e.1).map(|(g, e)| (*g.0, (*g.1, *e.1))) {
                let what = if g.0 != e.0 { "wrong-byte" } else { "wrong-permissions" };
                acc.violation(format!("C19|link|memory|{}", what), format!("at {:#x}: ({:#x},{:#b}) expected ({:#x},{:#b})", a, g.0, g.1, e.0, e.1), case());
            }
        }
    }
    if l.program_entry != DATA_VADDR + 0x30 {
        acc.violation("C19|link|program-entry".to_string(), format!("{:#x} expected {:#x}", l.program_entry, DATA_VADDR + 0x30), case());
    }
    if l.entries != l.union_entries {
        acc.violation("C19|link|function-entries".to_string(), format!("{:x?} is not the union of the objects' entries {:x?}", l.entries, l.union_entries), case());
    }
    for o in &sc.objs {
        for (n, v) in &o.defs {
            let want = l.bases[&o.name] + v;
            if !l.entries.contains(&want) {
                acc.violation("C19|link|function-entries|defined-symbol-missing".to_string(), format!("{} at {:#x} is not an entry: {:x?}", n, want, l.entries), case());
            }
            if !l.symbols.contains(&(n.clone(), want)) {
                acc.violation("C19|link|symbols|defined-symbol".to_string(), format!("{} expected at {:#x}: {:x?}", n, want, l.symbols.iter().filter(|(m, _)| m == n).collect::<Vec<_>>()), case());
            }
        }
    }
    acc.outcome(&("linked", l.bases.len(), relocated.len(), relocated.values().map(|(w, _)| *w).collect::<Vec<_>>()));
}

/// All scenarios of the tier, in a fixed order.
pub fn scenarios(thorough: bool) -> Vec<Scenario> {
    // topologies: (needed lists of main, A, B; is B present)
    let topo: Vec<(Vec<&str>, Vec<&str>, bool)> = vec![
        (vec!["libA.so"], vec![], false),
        (vec!["libA.so", "libB.so"], vec![], true),
        (vec!["libA.so"], vec!["libB.so"], true),
        (vec!["libA.so", "libB.so"], vec!["libB.so"], true),
        (vec!["libB.so", "libA.so"], vec![], true),
    ];
    let defs: [Vec<(&str, u64)>; 3] = [vec![("m0", 0x1024)], vec![("a0", 0x1028), ("a1", 0x102c)], vec![("b0", 0x1034)]];
    let mut out = Vec::new();
    for (main_needed, a_needed, has_b) in &topo {
        let present: Vec<usize> = if *has_b { vec![0, 1, 2] } else { vec![0, 1] };
        let mut syms: Vec<String> = Vec::new();
        for &i in &present {
            for (n, _) in &defs[i] {
                syms.push(n.to_string());
            }
        }
        let mut options: Vec<Option<Reloc>> = vec![None, Some(Reloc { kind: R_RELATIVE, sym: None })];
        for k in [R_GLOB_DAT, R_JMP_SLOT, R_32] {
            for s in &syms {
                options.push(Some(Reloc { kind: k, sym: Some(s.clone()) }));
            }
        }
        // slots per object: quick 1/1/1, thorough 2/2/1
        let slots: Vec<usize> = present.iter().map(|&i| if thorough && i < 2 { 2 } else { 1 }).collect();
        let total_slots: usize = slots.iter().sum();
        let n = options.len();
        let mut idx = vec![0usize; total_slots];
        loop {
            let mut objs = Vec::new();
            let mut p = 0;
            for (j, &i) in present.iter().enumerate() {
                let mut relocs = Vec::new();
                for _ in 0..slots[j] {
                    match &options[idx[p]] {
                        Some(r) => relocs.push(r.clone()),
                        None => relocs.push(Reloc { kind: 0, sym: None }),
                    }
                    p += 1;
                }
                let needed: Vec<String> = match i {
                    0 => main_needed.iter().map(|s| s.to_string()).collect(),
                    1 => a_needed.iter().map(|s| s.to_string()).collect(),
                    _ => vec![],
                };
                objs.push(Obj { name: NAMES[i].to_string(), needed, defs: defs[i].iter().map(|(n, v)| (n.to_string(), *v)).collect(), relocs });
            }
            out.push(Scenario { objs, do_relocations: true });
            // next
            let mut k = 0;
            loop {
                if k == total_slots {
                    break;
                }
                idx[k] += 1;
                if idx[k] < n {
                    break;
                }
                idx[k] = 0;
                k += 1;
            }
            if k == total_slots {
                break;
            }
        }
        // one scenario without relocation processing
        let mut plain = out.last().unwrap().clone();
        plain.do_relocations = false;
        out.push(plain);
    }
    out
}

pub fn scratch_dir(ctx: &Ctx) -> PathBuf {
    let d = crate::report::verif_dir().join("target").join("tmp").join(format!("c19-link-{}-{}", std::process::id(), ctx.shard));
    let _ = std::fs::create_dir_all(&d);
    d
}
