//! C18 — program locations navigate and round-trip consistently.
use crate::report::{Acc, Describe};
use crate::util::{guarded, panic_class};
use crate::{Ctx, Prop};
use falcon::il::{self, FunctionLocation as FL, ProgramLocation, RefFunctionLocation, RefProgramLocation};
use serde_json::{json, Value};
use std::collections::{BTreeMap, BTreeSet};

pub fn prop() -> Prop {
    Prop {
        id: "C18",
        describe,
        run,
        replay,
        shards: |_| 16,
        timeout_s: |t| if t.thorough() { 1800 } else { 300 },
        mem_limit: 4 << 30,
    }
}

fn describe() -> Describe {
    Describe {
        id: "C18",
        level: "model_checking",
        rule: "every function on <=3 blocks (all 2^(n*n) edge sets incl. self-loops and multiple out-edges) x every entry x block \
               sizes {0,1,2, 2 with indices [1,2], 2 with indices [0,2]}^n x address patterns {unique, one per block, none} x function placed first or second \
               in a two-function program; ALL locations and ALL addresses 0..max+1 are checked: forward/backward converse, \
               locations() lists each instruction/empty block/edge exactly once, forward closure from the entry equals the \
               definitional location set, owned<->borrowed round trip on the program and on a clone, migrate, from_address. \
               states = locations visited, transitions = forward steps taken.",
        assumptions: vec!["definitional location graph computed by the harness from blocks()/edges()".into()],
        engine: "grid enumerator over functions (16 processes), exhaustive location-graph traversal",
    }
}

#[derive(Clone, Debug)]
struct Spec {
    n: usize,
    edges: u32, // bit i*n+j : edge i -> j
    entry: usize,
    sizes: Vec<u8>, // 0,1,2; 3 = two instructions with indices [1,2]; 4 = two instructions with indices [0,2]
    addr: u8,       // 0 unique, 1 per block, 2 none
    second: bool,   // function under test is function index 1
}

impl Spec {
    fn json(&self) -> Value {
        json!({"n": self.n, "edges": self.edges, "entry": self.entry, "sizes": self.sizes, "addr": self.addr, "second": self.second})
    }
    fn parse(v: &Value) -> Spec {
        Spec {
            n: v["n"].as_u64().unwrap() as usize,
            edges: v["edges"].as_u64().unwrap() as u32,
            entry: v["entry"].as_u64().unwrap() as usize,
            sizes: v["sizes"].as_array().unwrap().iter().map(|x| x.as_u64().unwrap() as u8).collect(),
            addr: v["addr"].as_u64().unwrap() as u8,
            second: v["second"].as_bool().unwrap(),
        }
    }
    fn build(&self) -> il::Program {
        let mut cfg = il::ControlFlowGraph::new();
        for _ in 0..self.n {
            cfg.new_block().unwrap();
        }
        let mut next = 0x100u64;
        for b in 0..self.n {
            let blk = cfg.block_mut(b).unwrap();
            let cnt = match self.sizes[b] {
                0 => 0,
                1 => 1,
                2 => 2,
                _ => 3,
            };
            for _ in 0..cnt {
                blk.nop();
            }
            if self.sizes[b] == 3 {
                blk.remove_instruction(0).unwrap();
            }
            if self.sizes[b] == 4 {
                blk.remove_instruction(1).unwrap();
            }
            for ins in blk.instructions_mut() {
                match self.addr {
                    0 => {
                        ins.set_address(Some(next));
                        next += 1;
                    }
                    1 => ins.set_address(Some(0x100 + b as u64)),
                    _ => {}
                }
            }
        }
        for i in 0..self.n {
            for j in 0..self.n {
                if self.edges & (1 << (i * self.n + j)) != 0 {
                    cfg.unconditional_edge(i, j).unwrap();
                }
            }
        }
        cfg.set_entry(self.entry).unwrap();
        let f = il::Function::new(0x100, cfg);
        let mut other = il::ControlFlowGraph::new();
        {
            let b = other.new_block().unwrap();
            b.nop();
            b.instructions_mut()[0].set_address(Some(0x500));
        }
        other.set_entry(0).unwrap();
        let g = il::Function::new(0x500, other);
        let mut p = il::Program::new();
        if self.second {
            p.add_function(g);
            p.add_function(f);
        } else {
            p.add_function(f);
            p.add_function(g);
        }
        p
    }
}

fn fl(l: &RefProgramLocation) -> FL {
    l.function_location().clone().into()
}

fn check(acc: &mut Acc, spec: &Spec) {
    acc.count("evaluations", 1);
    let case = || spec.json();
    let program = spec.build();
    let fidx = if spec.second { 1 } else { 0 };
    let f = program.function(fidx).unwrap();
    let clone = program.clone();
    let r = guarded(|| -> Vec<(String, String)> {
        let mut bad: Vec<(String, String)> = Vec::new();
        // definitional location sets
        let mut all: BTreeSet<FL> = BTreeSet::new();
        let mut fwd: BTreeMap<FL, BTreeSet<FL>> = BTreeMap::new();
        let head = |b: usize| -> FL {
            let blk = f.block(b).unwrap();
            match blk.instructions().first() {
                Some(i) => FL::Instruction(b, i.index()),
                None => FL::EmptyBlock(b),
            }
        };
        for blk in f.blocks() {
            let b = blk.index();
            let outs: BTreeSet<FL> = f.edges().iter().filter(|e| e.head() == b).map(|e| FL::Edge(e.head(), e.tail())).collect();
            let ins = blk.instructions();
            if ins.is_empty() {
                all.insert(FL::EmptyBlock(b));
                fwd.insert(FL::EmptyBlock(b), outs.clone());
            }
            for (k, i) in ins.iter().enumerate() {
                let l = FL::Instruction(b, i.index());
                all.insert(l.clone());
                if k + 1 < ins.len() {
                    fwd.insert(l, [FL::Instruction(b, ins[k + 1].index())].into_iter().collect());
                } else {
                    fwd.insert(l, outs.clone());
                }
            }
        }
        for e in f.edges() {
            let l = FL::Edge(e.head(), e.tail());
            all.insert(l.clone());
            fwd.insert(l, [head(e.tail())].into_iter().collect());
        }
        // 2. enumeration
        let listed: Vec<FL> = f.locations().into_iter().map(|l| l.into()).collect();
        let listed_set: BTreeSet<FL> = listed.iter().cloned().collect();
        if listed.len() != listed_set.len() {
            bad.push(("locations|duplicate".into(), format!("{:?}", listed)));
        }
        if listed_set != all {
            bad.push(("locations|set".into(), format!("listed {:?} expected {:?}", listed_set, all)));
        }
        // 1. forward / backward against the definition, hence converse of each other
        let mut real_fwd: BTreeMap<FL, BTreeSet<FL>> = BTreeMap::new();
        let mut real_bwd: BTreeMap<FL, BTreeSet<FL>> = BTreeMap::new();
        for l in &all {
            let rl = RefProgramLocation::new(f, l.apply(f).unwrap());
            match rl.forward() {
                Ok(v) => {
                    let s: BTreeSet<FL> = v.iter().map(fl).collect();
                    if s.len() != v.len() {
                        bad.push(("forward|duplicate".into(), format!("{:?}", l)));
                    }
                    real_fwd.insert(l.clone(), s);
                }
                Err(e) => bad.push(("forward|error".into(), format!("{:?}: {}", l, e))),
            }
            match rl.backward() {
                Ok(v) => {
                    real_bwd.insert(l.clone(), v.iter().map(fl).collect());
                }
                Err(e) => bad.push(("backward|error".into(), format!("{:?}: {}", l, e))),
            }
        }
        for l in &all {
            if real_fwd.get(l) != fwd.get(l) {
                bad.push(("forward|definition".into(), format!("forward({:?}) = {:?} expected {:?}", l, real_fwd.get(l), fwd.get(l))));
            }
        }
        for a in &all {
            for b in &all {
                let ab = real_fwd.get(a).map(|s| s.contains(b)).unwrap_or(false);
                let ba = real_bwd.get(b).map(|s| s.contains(a)).unwrap_or(false);
                if ab != ba {
                    bad.push(("converse".into(), format!("{:?} in forward({:?}) = {} but {:?} in backward({:?}) = {}", b, a, ab, a, b, ba)));
                }
            }
        }
        // 3. closure from the entry
        let mut reach_blocks: BTreeSet<usize> = [spec.entry].into_iter().collect();
        let mut stack = vec![spec.entry];
        while let Some(b) = stack.pop() {
            for e in f.edges() {
                if e.head() == b && reach_blocks.insert(e.tail()) {
                    stack.push(e.tail());
                }
            }
        }
        let expected: BTreeSet<FL> = all
            .iter()
            .filter(|l| match l {
                FL::Instruction(b, _) | FL::EmptyBlock(b) => reach_blocks.contains(b),
                FL::Edge(h, _) => reach_blocks.contains(h),
            })
            .cloned()
            .collect();
        match RefProgramLocation::from_function(f) {
            Some(Ok(start)) => {
                if fl(&start) != head(spec.entry) {
                    bad.push(("from_function".into(), format!("{:?} expected {:?}", fl(&start), head(spec.entry))));
                }
                let mut seen: BTreeSet<FL> = BTreeSet::new();
                let mut stack = vec![start];
                while let Some(l) = stack.pop() {
                    if !seen.insert(fl(&l)) {
                        continue;
                    }
                    if let Ok(n) = l.forward() {
                        stack.extend(n);
                    }
                }
                if seen != expected {
                    bad.push(("closure".into(), format!("reached {:?} expected {:?}", seen, expected)));
                }
            }
            _ => bad.push(("from_function".into(), "none or error".into())),
        }
        // 4. round trips
        for l in &all {
            let rl = RefProgramLocation::new(f, l.apply(f).unwrap());
            let owned: ProgramLocation = rl.clone().into();
            for (name, target) in [("apply-same", &program), ("apply-clone", &clone)] {
                match owned.apply(target) {
                    Ok(back) => {
                        if fl(&back) != *l || back.function().index() != Some(fidx) {
                            bad.push((format!("roundtrip|{}", name), format!("{:?} came back as {:?} in function {:?}", l, fl(&back), back.function().index())));
                        }
                        // the reference must denote the same object
                        let same = match (rl.function_location(), back.function_location()) {
                            (RefFunctionLocation::Instruction(b1, i1), RefFunctionLocation::Instruction(b2, i2)) => b1.index() == b2.index() && i1 == i2,
                            (RefFunctionLocation::Edge(e1), RefFunctionLocation::Edge(e2)) => e1 == e2,
                            (RefFunctionLocation::EmptyBlock(b1), RefFunctionLocation::EmptyBlock(b2)) => b1.index() == b2.index(),
                            _ => false,
                        };
                        if !same {
                            bad.push((format!("roundtrip|{}", name), format!("{:?} denotes a different object", l)));
                        }
                    }
                    Err(e) => bad.push((format!("roundtrip|{}", name), format!("{:?}: {}", l, e))),
                }
            }
            match rl.migrate(&clone) {
                Ok(m) => {
                    if fl(&m) != *l || m.function().index() != Some(fidx) {
                        bad.push(("migrate".into(), format!("{:?} migrated to {:?}", l, fl(&m))));
                    }
                }
                Err(e) => bad.push(("migrate".into(), format!("{:?}: {}", l, e))),
            }
        }
        // 5. address lookup
        let mut addrs: BTreeSet<u64> = BTreeSet::new();
        for func in program.functions() {
            for b in func.blocks() {
                for i in b.instructions() {
                    if let Some(a) = i.address() {
                        addrs.insert(a);
                    }
                }
            }
        }
        for a in (0xFEu64..0x10C).chain(0x4FE..0x503) {
            match RefProgramLocation::from_address(&program, a) {
                Some(l) => {
                    if l.address() != Some(a) || !addrs.contains(&a) {
                        bad.push(("from_address|wrong".into(), format!("{:#x} -> {:?}", a, l.address())));
                    }
                }
                None => {
                    if addrs.contains(&a) {
                        bad.push(("from_address|missed".into(), format!("{:#x} exists but was not found", a)));
                    }
                }
            }
        }
        bad.push(("__counts".into(), format!("{} {}", all.len(), real_fwd.values().map(|s| s.len()).sum::<usize>())));
        bad
    });
    match r {
        Err(pn) => acc.violation(format!("C18|panic:{}|-", panic_class(&pn)), format!("panicked: {}", pn), case()),
        Ok(bad) => {
            for (k, what) in bad {
                if k == "__counts" {
                    acc.outcome(&what);
                    let mut it = what.split(' ');
                    acc.count("states", it.next().unwrap().parse().unwrap());
                    acc.count("transitions", it.next().unwrap().parse().unwrap());
                    continue;
                }
                acc.violation(format!("C18|{}|addr-pattern={}", k, spec.addr), what, case());
            }
        }
    }
    acc.count("nontrivial", 1);
    acc.count("traces", 1);
}

fn run(ctx: &Ctx) -> Acc {
    let mut acc = Acc::new();
    let mut unit = 0u64;
    let maxn = 3;
    for n in 1..=maxn {
        for edges in 0..(1u32 << (n * n)) {
            for entry in 0..n {
                unit += 1;
                if !ctx.mine(unit) {
                    continue;
                }
                let nsz = 5usize.pow(n as u32);
                for sz in 0..nsz {
                    let sizes: Vec<u8> = (0..n).map(|b| ((sz / 5usize.pow(b as u32)) % 5) as u8).collect();
                    if !ctx.tier.thorough() && n == 3 && sizes.iter().filter(|s| **s >= 3).count() > 1 {
                        continue;
                    }
                    for addr in 0..3u8 {
                        for second in [false, true] {
                            let spec = Spec { n, edges, entry, sizes: sizes.clone(), addr, second };
                            ctx.trace(|| format!("fn\t{}", spec.json()));
                            check(&mut acc, &spec);
                        }
                    }
                }
            }
        }
    }
    if ctx.shard == 0 {
        acc.sample(Spec { n: 3, edges: 0b010_101_110, entry: 1, sizes: vec![0, 2, 3], addr: 1, second: true }.json());
    }
    acc
}

fn replay(case: &Value) -> Acc {
    let mut acc = Acc::new();
    check(&mut acc, &Spec::parse(case));
    acc
}
