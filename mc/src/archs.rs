//! The seven supported architectures and small lifting helpers.
use falcon::architecture::*;
use falcon::il;
use falcon::memory::backing;
use falcon::memory::MemoryPermissions as P;

pub const ARCH_NAMES: [&str; 7] = ["x86", "amd64", "mips", "mipsel", "ppc", "aarch64", "aarch64eb"];

pub fn arch(name: &str) -> Box<dyn Architecture> {
    match name {
        "x86" => Box::new(X86::new()),
        "amd64" => Box::new(Amd64::new()),
        "mips" => Box::new(Mips::new()),
        "mipsel" => Box::new(Mipsel::new()),
        "ppc" => Box::new(Ppc::new()),
        "aarch64" => Box::new(AArch64::new()),
        "aarch64eb" => Box::new(AArch64Eb::new()),
        _ => panic!("unknown architecture {}", name),
    }
}

/// instruction words are stored in the architecture's instruction byte order
pub fn code_bytes(name: &str, words: &[u32]) -> Vec<u8> {
    let mut v = Vec::new();
    for w in words {
        match name {
            "mips" | "ppc" => v.extend_from_slice(&w.to_be_bytes()),
            _ => v.extend_from_slice(&w.to_le_bytes()), // mipsel, aarch64 and aarch64eb (A64 instructions are always little-endian)
        }
    }
    v
}

pub fn image(name: &str, address: u64, bytes: &[u8]) -> backing::Memory {
    let mut m = backing::Memory::new(arch(name).endian());
    m.set_memory(address, bytes.to_vec(), P::READ | P::EXECUTE);
    m
}

pub fn lift_function(name: &str, address: u64, bytes: &[u8]) -> Result<il::Function, falcon::Error> {
    let m = image(name, address, bytes);
    arch(name).translator().translate_function(&m, address)
}
