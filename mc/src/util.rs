//! Small helpers: panic capture, resource limits.
use std::panic::{catch_unwind, AssertUnwindSafe};

thread_local! {
    static LAST_PANIC_FILE: std::cell::RefCell<String> = std::cell::RefCell::new(String::new());
}

pub fn silence_panics() {
    if std::env::var("FV_VERBOSE_PANIC").is_ok() {
        return;
    }
    std::panic::set_hook(Box::new(|info| {
        let file = info
            .location()
            .map(|l| l.file().to_string())
            .unwrap_or_default();
        LAST_PANIC_FILE.with(|f| *f.borrow_mut() = file);
    }));
}

/// Source file of the most recent panic on this thread (line numbers are deliberately dropped so
/// that finding keys survive unrelated edits).
pub fn last_panic_file() -> String {
    LAST_PANIC_FILE.with(|f| {
        let s = f.borrow().clone();
        match s.find("lib/") {
            Some(i) if s.contains("/repo/") || s.starts_with("lib/") => s[i..].to_string(),
            _ => s.rsplit('/').next().unwrap_or("").to_string(),
        }
    })
}

/// Keep freed memory in the process (falcon allocates and frees 48 KiB pages at a high rate; giving
/// them back to the kernel each time dominated the run time).
pub fn tune_malloc() {
    unsafe {
        libc::mallopt(libc::M_TRIM_THRESHOLD, 1 << 30);
        libc::mallopt(libc::M_MMAP_THRESHOLD, 1 << 30);
    }
}

pub fn limit_memory(bytes: u64) {
    if bytes == 0 {
        return;
    }
    unsafe {
        let lim = libc::rlimit {
            rlim_cur: bytes,
            rlim_max: bytes,
        };
        libc::setrlimit(libc::RLIMIT_AS, &lim);
    }
}

/// Run `f`, turning a panic into `Err(message)`.
pub fn guarded<T>(f: impl FnOnce() -> T) -> Result<T, String> {
    match catch_unwind(AssertUnwindSafe(f)) {
        Ok(v) => Ok(v),
        Err(e) => {
            let msg = if let Some(s) = e.downcast_ref::<&str>() {
                s.to_string()
            } else if let Some(s) = e.downcast_ref::<String>() {
                s.clone()
            } else {
                "panic".to_string()
            };
            Err(msg)
        }
    }
}

/// Shorten a panic message to a stable class (strip numbers that vary per input).
pub fn panic_class(msg: &str) -> String {
    let mut out = String::new();
    let mut last_digit = false;
    for c in msg.chars().take(80) {
        if c.is_ascii_digit() {
            if !last_digit {
                out.push('#');
            }
            last_digit = true;
        } else {
            last_digit = false;
            out.push(if c.is_whitespace() { '_' } else { c });
        }
    }
    out
}

pub fn hex(b: &[u8]) -> String {
    b.iter().map(|x| format!("{:02x}", x)).collect()
}
