#!/bin/bash
# runall.sh [tier] : run every registered check on the current tree, one summary line each
tier=${1:-quick}
cd /verif
for id in $(python3 -c "import json;print(' '.join(c['property_id'] for c in json.load(open('MANIFEST.json'))['checks']))"); do
  out=$(./check $id $tier 2>&1); code=$?
  echo "$id exit=$code $(echo "$out" | tail -1 | cut -c1-160)"
done
