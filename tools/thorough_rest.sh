#!/bin/bash
# thorough_rest.sh : thorough tier of every check except C01, one summary line each (used under `vp run`)
cd /verif
for id in C19 C20 C18 C11 C04 C02 C03 C05 C12 C13 C14 C10 C17 C09 C16 C15 C06 C07 C08; do
  s=$(date +%s)
  out=$(./check $id thorough 2>&1); code=$?
  echo "$id exit=$code $(( $(date +%s) - s ))s $(echo "$out" | tail -1 | cut -c1-170)"
  echo "$out" | grep "violation key\|MACHINERY" | head -20 | cut -c1-300
done
