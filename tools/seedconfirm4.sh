#!/bin/bash
# seedconfirm.sh <id> : in a scratch worktree of /repo (under /tmp, removed afterwards) confirm that the seeded
# change seeded/<id>/patch.diff (1) passes the repository's suite, (2) fails seeded/<id>/demo.rs, and that
# (3) the demo passes on the unchanged tree. Prints one line: "<id> suite=<ok|FAIL> demo_with=<fail|PASS?> demo_without=<pass|FAIL?>"
id=$1
wt=/tmp/sv4/$id
rm -rf $wt; mkdir -p /tmp/sv4
git -C /repo worktree add --detach -f $wt HEAD >/dev/null 2>&1 || { echo "$id worktree failed"; exit 2; }
cd $wt
export CARGO_NET_OFFLINE=true CARGO_TARGET_DIR=$wt/target
git apply /verif/seeded4/$id/patch.diff || { echo "$id patch does not apply"; exit 2; }
suite=$(cargo test --offline 2>&1 | grep -E "^test result" | tr '\n' ' ')
case "$suite" in *"443 passed; 0 failed"*"2 passed; 0 failed"*) s=ok;; *) s="FAIL($suite)";; esac
mkdir -p tests; cp /verif/seeded4/$id/demo.rs tests/demo.rs
if cargo test --offline --test demo >/tmp/sv4/$id.with.log 2>&1; then w="PASS?"; else if grep -q "test result: FAILED" /tmp/sv4/$id.with.log; then w=fail; else w="BUILD-ERROR?"; fi; fi
git checkout -- lib
if cargo test --offline --test demo >/tmp/sv4/$id.without.log 2>&1; then wo=pass; else wo="FAIL?"; fi
echo "$id suite=$s demo_with=$w demo_without=$wo"
cd /; git -C /repo worktree remove --force $wt; rm -rf $wt
