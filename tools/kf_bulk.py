#!/usr/bin/env python3
"""kf_bulk.py <prop> : add every violation currently in /verif/replays/<prop>-*.json to known_findings.json
(used after triage, when a whole family of keys has been judged a genuine defect that is recorded, not repaired)."""
import json,glob,sys
prop=sys.argv[1]
ROOT={
 'jalr':'MIPS: the branch part of a pair is emitted after the delay slot, so the link register / indirect target / bltzal-bgezal condition are taken from the state AFTER the delay-slot instruction and the link value is not visible to it',
 'jr':'MIPS: the indirect target is read after the delay-slot instruction executed',
 'jal':'MIPS: the link register is written after the delay-slot instruction (which must already see it)',
 'bal':'MIPS: the link register is written after the delay-slot instruction (which must already see it)',
 'bltzal':'MIPS: condition and link are evaluated after the delay-slot instruction',
 'bgezal':'MIPS: condition and link are evaluated after the delay-slot instruction',
 'lwl':'MIPS lwl/lwr/swl/swr ignore the alignment/endianness merge semantics',
 'lwr':'MIPS lwl/lwr/swl/swr ignore the alignment/endianness merge semantics',
 'swl':'MIPS lwl/lwr/swl/swr ignore the alignment/endianness merge semantics',
 'swr':'MIPS lwl/lwr/swl/swr ignore the alignment/endianness merge semantics',
 'blr':'PowerPC blr/bdnzl are lifted as no-ops that fall through',
 'bdnzl':'PowerPC blr/bdnzl are lifted as no-ops that fall through',
 'bdnzl-':'PowerPC blr/bdnzl are lifted as no-ops that fall through',
 'bdnzl+':'PowerPC blr/bdnzl are lifted as no-ops that fall through',
 'rlwinm':'PowerPC rlwinm mask generation is wrong for some MB/ME (e.g. ME=31, MB=ME)',
 'rlwinm.':'PowerPC rlwinm mask generation / Rc=1 CR0 update',
 'slwi':'PowerPC rlwinm mask generation is wrong for some MB/ME',
 'add.':'PowerPC record forms (Rc=1) do not update CR0',
 'subf.':'PowerPC record forms (Rc=1) do not update CR0',
 'addze':'PowerPC addze/srawi do not update the carry bit correctly',
 'addze.':'PowerPC addze/srawi carry, Rc=1 CR0',
 'srawi':'PowerPC addze/srawi do not update the carry bit correctly',
 'srawi.':'PowerPC addze/srawi carry, Rc=1 CR0',
 'mtctr':'PowerPC mtctr reads its operand as an immediate',
 'shld':'shld/shrd: count not masked to 5/6 bits, flags not preserved for a zero count, undefined-count cases',
 'shrd':'shld/shrd: count not masked to 5/6 bits, flags not preserved for a zero count, undefined-count cases',
 'rol':'rol/ror: flags are written even when the masked count is 0, OF is not MSB xor CF',
 'ror':'rol/ror: flags are written even when the masked count is 0',
 'shl':'shl/shr/sar: flags must be left unchanged when the masked count is 0',
 'shr':'shl/shr/sar: flags must be left unchanged when the masked count is 0',
 'sar':'shl/shr/sar: flags must be left unchanged when the masked count is 0',
 'movsd':'SSE2 movsd (f2 0f 10/11) is dispatched to the string instruction movsd',
 'push':'16-bit push (66 prefix) moves the stack pointer by the mode width instead of 2',
 'pop':'16-bit pop (66 prefix) moves the stack pointer by 2 although REX.W/mode width applies, or vice versa',
 'bts':'bt/bts/btr/btc with a memory base and a register bit offset must address the bit string beyond the operand',
 'btr':'bt/bts/btr/btc with a memory base and a register bit offset must address the bit string beyond the operand',
 'btc':'bt/bts/btr/btc with a memory base and a register bit offset must address the bit string beyond the operand',
 'bt':'bt/bts/btr/btc with a memory base and a register bit offset must address the bit string beyond the operand',
 'addu.qb':'MIPS DSP ASE addu.qb/subu.qb (SPECIAL3, capstone reports the instruction id of addu/subu) are lifted as the plain 32-bit addu/subu instead of four byte lanes',
 'subu.qb':'MIPS DSP ASE addu.qb/subu.qb (SPECIAL3, capstone reports the instruction id of addu/subu) are lifted as the plain 32-bit addu/subu instead of four byte lanes',
 'xadd':'xadd with the same register as both operands / 8-16 bit forms',
}
p='/verif/known_findings.json'
k=json.load(open(p))
have={(f['property'],f['key']) for f in k['findings']}
n=0
for f in sorted(glob.glob(f'/verif/replays/{prop}-*.json')):
    d=json.load(open(f))
    if (prop,d['key']) in have: continue
    parts=d['key'].split('|')
    mn=parts[2] if len(parts)>2 else ''
    c=d['case']
    ex=c.get('il_bytes') or c.get('bytes') or c.get('word') or ''
    root=ROOT.get(mn.split()[-1], 'disagrees with the reference')
    if mn.startswith('SUBS'): root='AArch64 SUBS/CMP compute C as the borrow; the architecture defines C = NOT borrow (carry of x + NOT(y) + 1). The repository test aarch64::test::subs_xn pins the current value, so this cannot be repaired without editing the suite'
    k['findings'].append({"property":prop,"key":d['key'],"what":f"{mn}: {root}; e.g. bytes {ex}: {d['what'][:160]}"})
    n+=1
json.dump(k,open(p,'w'),indent=1)
print('added',n)
