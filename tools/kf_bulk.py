#!/usr/bin/env python3
"""kf_bulk.py <prop> : add every violation currently in /verif/replays/<prop>-*.json to known_findings.json
(used after triage, when a whole family of keys has been judged a genuine defect that is recorded, not repaired)."""
import json,glob,sys
prop=sys.argv[1]
ROOT={
 'shld':'shld/shrd: count not masked to 5/6 bits, flags not preserved for a zero count, undefined-count cases',
 'shrd':'shld/shrd: count not masked to 5/6 bits, flags not preserved for a zero count, undefined-count cases',
 'rol':'rol/ror: flags are written even when the masked count is 0, OF is not MSB xor CF',
 'ror':'rol/ror: flags are written even when the masked count is 0',
 'shl':'shl/shr/sar: flags must be left unchanged when the masked count is 0',
 'shr':'shl/shr/sar: flags must be left unchanged when the masked count is 0',
 'sar':'shl/shr/sar: flags must be left unchanged when the masked count is 0',
 'movsd':'SSE2 movsd (f2 0f 10/11) is dispatched to the string instruction movsd',
 'push':'16-bit push (66 prefix) moves the stack pointer by the mode width instead of 2',
 'pop':'16-bit pop (66 prefix) moves the stack pointer by 2 although REX.W/mode width applies, or vice versa',
 'bts':'bt/bts/btr/btc with a memory base and a register bit offset must address the bit string beyond the operand',
 'btr':'bt/bts/btr/btc with a memory base and a register bit offset must address the bit string beyond the operand',
 'btc':'bt/bts/btr/btc with a memory base and a register bit offset must address the bit string beyond the operand',
 'bt':'bt/bts/btr/btc with a memory base and a register bit offset must address the bit string beyond the operand',
 'xadd':'xadd with the same register as both operands / 8-16 bit forms',
}
p='/verif/known_findings.json'
k=json.load(open(p))
have={(f['property'],f['key']) for f in k['findings']}
n=0
for f in sorted(glob.glob(f'/verif/replays/{prop}-*.json')):
    d=json.load(open(f))
    if (prop,d['key']) in have: continue
    parts=d['key'].split('|')
    mn=parts[2] if len(parts)>2 else ''
    c=d['case']
    ex=c.get('il_bytes') or c.get('bytes') or ''
    root=ROOT.get(mn.split()[-1], 'disagrees with the host CPU')
    k['findings'].append({"property":prop,"key":d['key'],"what":f"{mn}: {root}; e.g. bytes {ex}: {d['what'][:160]}"})
    n+=1
json.dump(k,open(p,'w'),indent=1)
print('added',n)
