#!/usr/bin/env python3
"""Regenerates /verif/MANIFEST.json from the table below and validates it against the schema."""
import json, sys
CHECKS = {
 "C04": dict(level="exploration", sec="3/C04", technique="exhaustive small-scope enumeration (operator x width x all operand values; depth-2 trees) against a bit-vector reference model",
   text="Exhaustive grid, not a sample: every operator at widths 1..8 over all operand pairs, boundary grids to 200 bits incl. shift amounts that do not fit usize, all depth-2 trees over a leaf alphabet, all unequal-width rejections; through Constant, Expression+eval, sra/rotl/replace_scalar. Values outside the alphabets at widths > 8 are not covered.",
   note="Trusted: harness Vec<bool> bit-vector reference (self-tested against native u64/i64 at start-up). falcon built with overflow-checks on."),
}
NA = []
def main():
    checks=[]
    for pid in sorted(CHECKS):
        c=CHECKS[pid]
        checks.append({
          "property_id": pid,
          "quick_cmd": f"./check {pid} quick",
          "thorough_cmd": f"./check {pid} thorough",
          "evidence_file": f"/verif/evidence/{pid}.json",
          "replay_cmd_template": f"./check {pid} --replay {{path}}",
          "engine": "fv",
          "level_claimed": {"category": c["level"], "text": c["text"], "design_ref": c["sec"]},
          "level_note": c["note"],
          "technique": c["technique"],
        })
    m={
     "version":1,
     "setup_cmd":"cd /verif && ./check --build-only",
     "hooks":{"guard":"falcon_verif","enable":"no hooks are needed: every observation point is public API; RUSTFLAGS='--cfg falcon_verif' is reserved","baseline_off_cmd":"cd /repo && cargo test --workspace --no-fail-fast --offline","source_commits":[],"add_only":True},
     "engines":[{"name":"fv","path":"/verif/mc","serves_properties":sorted(CHECKS),"kind_free_text":"Rust harness linked against /repo (path dependency, rebuilt from the working tree): orderly enumerators, explicit-state explorers (hand-rolled BFS and stateright), reference models; worker sub-processes for isolation"}],
     "checks":checks,
     "notes":"Exit codes: 0 held (KNOWN-FINDING lines allowed), 1 VIOLATION, 2 machinery failure. known_findings.json lists recorded and fixed defects.",
     "not_applicable":NA,
    }
    json.dump(m,open('/verif/MANIFEST.json','w'),indent=1)
    try:
        import jsonschema
        jsonschema.validate(m,json.load(open('/root/.vp/MANIFEST.schema.json')))
        print("manifest valid,",len(checks),"checks")
    except ImportError:
        print("jsonschema missing; not validated")
main()
