#!/usr/bin/env python3
"""Regenerates /verif/MANIFEST.json from the table below and validates it against the schema."""
import json, sys
CHECKS = {
 "C04": dict(level="exploration", sec="3/C04", technique="exhaustive small-scope enumeration (operator x width x all operand values; depth-2 trees) against a bit-vector reference model",
   text="Exhaustive grid, not a sample: every operator at widths 1..8 over all operand pairs, boundary grids to 200 bits incl. shift amounts that do not fit usize, all depth-2 trees over a leaf alphabet, all unequal-width rejections; through Constant, Expression+eval, sra/rotl/replace_scalar. Values outside the alphabets at widths > 8 are not covered.",
   note="Trusted: harness Vec<bool> bit-vector reference (self-tested against native u64/i64 at start-up). falcon built with overflow-checks on."),
 "C11": dict(level="model_checking", sec="3/C11", technique="exhaustive enumeration of all digraphs up to 4 (thorough 5) vertices x all roots against definitional oracles; stateright explicit-state BFS over all edit histories (closing search over the real Graph object)",
   text="All 66 632 digraphs on <=4 vertices (thorough: +2^20 on 5) from every root against brute-force definitions (dominance by vertex deletion, all DFS runs, T1/T2); edit-history state space of the real object closes at 567 states with every view and every algorithm re-checked in each. Larger graphs are not covered.",
   note="Trusted: O(n^3) definitional oracles in the harness. Unreachable vertices: only no-failure/exclusion is required. State key = Debug dump of the Graph incl. both adjacency mirrors."),
 "C16": dict(level="model_checking", sec="3/C16", technique="stateright explicit-state BFS over all set_memory/set32 histories on the real backing::Memory against a byte/permission-map reference model",
   text="Every history of region writes (8 start addresses x lengths 0..5 x 3 permissions) and in-region set32 to depth 3 (reduced alphabet: depth 4 in thorough), both endiannesses; all reads of widths 8..64 at every window address compared in every state. Longer histories / wider windows are not covered.",
   note="Trusted: BTreeMap<addr,(byte,perm)> reference. set32 on unmapped addresses is not exercised (panics by design)."),
 "C08": dict(level="model_checking", sec="3/C08", technique="stateright explicit-state BFS over all store/fork/set_permissions histories on the real paged::Memory (two slots) against a byte-map reference model",
   text="Every history of stores (8/16/32/64 bit at every address around the 0x400 page boundary, two slots), clone and set_permissions to depth 2 (tiny alphabet 3) in quick, depth 3 (reduced alphabet 4) in thorough, for endian x backing x {Constant, Expression}; every load width 8..128 at every window address, reflexive equality, equality=>same contents and permissions compared in every state. Longer histories and other page boundaries are not covered.",
   note="Trusted: BTreeMap byte reference; Expression loads are evaluated with executor::eval (checked by C04). Permissions of addresses sharing a page with a set range but outside it are unspecified and not compared."),
 "C07": dict(level="model_checking", sec="3/C07", technique="exhaustive enumeration of small IL programs x initial states; lock-step explicit-state product of executor::Driver and a reference IL interpreter, loops closed by state dedup",
   text="Every function on <=2 blocks x every filling with <=2 (thorough 3) of 23 operations (incl. intrinsics with undeclared, empty and one-scalar write sets) x shapes incl. single conditional edges, non-exhaustive and three-way guards x endianness x initial valuations x memory pre-fill; location, scalars and memory compared after every step, error classes must correspond, on-demand lifting followed. Larger programs/other operand values are not covered.",
   note="Trusted: refil reference semantics (harness). End of a terminal block = ExecutorNoValidLocation accepted as termination."),
 "C09": dict(level="model_checking", sec="3/C09", technique="exhaustive enumeration of all CFGs on <=3 blocks x entry x exit x block sizes x a family of finite-lattice analyses; oracle = Kleene iteration cross-checked by brute-force search for the least solution",
   text="All 2^(n*n) edge sets for n<=3 with every entry/exit and block sizes, four analyses (three monotone, one non-monotone) under rotations of the transfer assignment, forward/backward through both the *_options functions and the convenience wrappers, force, step budgets; the returned map must have exactly the reachable locations and equal the least solution, or be an error when non-monotone / out of budget. Larger CFGs and other lattices are not covered.",
   note="Trusted: harness location graph and Kleene/brute-force oracles (the brute-force search validates that Kleene computes the least solution on every graph with <=6 locations)."),
 "C18": dict(level="model_checking", sec="3/C18", technique="exhaustive enumeration of all functions on <=3 blocks x sizes x address patterns; complete traversal of the location graph against a definitional one",
   text="Every function on <=3 blocks (all edge sets, all entries, block sizes 0/1/2 and index gaps, three address patterns, two program placements); every location: forward/backward converse and equal to the definition, locations() exact, forward closure from the entry exact, owned/borrowed round trip on program and clone, migrate, from_address for every address. Larger functions are not covered.",
   note="Trusted: definitional location graph built by the harness from blocks()/edges()."),
 "C12": dict(level="model_checking", sec="3/C12", technique="exhaustive enumeration of small IL functions x initial states; explicit-state product of each concrete execution with a last-writer monitor, plus static path checks",
   text="Every function on <=2 blocks with <=3 instructions (3 blocks: <=1 with the whole alphabet and <=2 over the plain assignments; thorough <=3) from a 13-operation alphabet incl. two-scalar reads, self-referential updates, loads (one addressed through its own destination), stores, intrinsics with declared (one and two scalars) and undeclared writes, an indirect branch; in every reachable product state the last writer of each scalar must be in reaching_definitions/use_def; reported definitions must reach along a kill-free path; def_use == inverse(use_def). Larger programs are not covered.",
   note="Trusted: refil reference semantics, harness expression walker for read/write sets, harness location graph."),
 "C14": dict(level="model_checking", sec="3/C14", technique="exhaustive enumeration of small IL functions x initial states; lock-step explicit-state product of the input and the DCE output (observational-equivalence monitor)",
   text="Same program space as C12 plus indirect branches; structural identity (only ops->nop), then lock-step product from every initial valuation: same path, same stores, same scalar state at every intrinsic/indirect branch and at terminal blocks. Larger programs are not covered.",
   note="Trusted: refil reference semantics; intrinsics are observation points whose declared writes yield equal values on both sides."),
 "C13": dict(level="model_checking", sec="3/C13", technique="exhaustive enumeration of small IL functions x initial states x intrinsic-effect variants; explicit-state product of each concrete execution with an assigned-scalar monitor",
   text="Every function on <=2 blocks with <=3 instructions (3 blocks: <=1 / <=2 over plain assignments, thorough <=3) from a 9-operation value-bearing alphabet; executions ending at an indirect branch and executions continuing along the CFG after it are both explored; in every reachable product state each constant reported for an assigned scalar and each Constants::eval result is compared with the concrete value; constants() must complete on every function passing a definite-assignment check. Larger programs/other values are not covered.",
   note="Trusted: refil reference semantics; havoc model for intrinsics (identity, or written scalars := 2)."),
 "C10": dict(level="model_checking", sec="3/C10", technique="exhaustive enumeration of small IL functions x initial states; definitional SSA validity checks plus lock-step explicit-state product of the original and its SSA form (parallel phi semantics)",
   text="Same program space as C12 (loops through the entry, self-loops, unreachable blocks included); static: structure kept, single assignment, phi operands per predecessor, uses dominated by definitions (dominance by deletion); dynamic: lock-step product from every initial valuation with version-keyed scalars: same path, same values, no read of an unwritten version. Larger programs are not covered.",
   note="Trusted: refil reference semantics incl. phi execution; declared intrinsic writes are havocked identically on both sides."),
 "C17": dict(level="model_checking", sec="3/C17", technique="exhaustive enumeration of small IL functions over each architecture's stack pointer plus lifted prologue/epilogue snippets; explicit-state product of every concrete execution with the reported offsets",
   text="For all 7 architectures: every entry-without-incoming-edge function on <=2 blocks with <=3 instructions (3 blocks <=2) from a 19-operation stack-pointer alphabet (displacements with the constant on either side incl. 2 GiB and 4 GiB, K - sp, masking, xor, constants, other registers, loads, stores) and lifted snippets; whenever Value(o) is reported after a location the concrete sp must equal entry sp + o (mod 2^w) on every execution from 8 initial states. Runs are cut at 48 steps.",
   note="Trusted: refil reference semantics. Offsets compared modulo the pointer width."),
 "C15": dict(level="model_checking", sec="3/C15", technique="stateright explicit-state BFS over all CFG construction/editing histories on the real ControlFlowGraph; structural invariants in every state and bounded trace-language equality across merge/append transitions",
   text="Every history from the empty graph or one of 5 library graphs applying new_block, push, (un)conditional edges, set_entry/exit, merge, append, insert, remove_instruction, Block::append (incl. error paths) to depth 3 (full alphabet: 2) in quick, 4 (3) in thorough; all structural invariants in every state; merge must not change, and append must sequentially compose, the set of tag/guard traces up to 8 symbols; blockify of every sequence of <=3 library graphs. Longer histories are not covered.",
   note="Trusted: harness trace enumerator (bounded at 8 symbols). State key = depth + Debug dump of the graph."),
 "C05": dict(level="exploration", sec="3/C05", technique="exhaustive structured byte/word grids per translator x policy, each lifted in a guarded worker and checked by an independent IL well-formedness validator incl. exhaustive guard-valuation truth tables",
   text="18 M liftings in quick (x86/amd64 byte grammar incl. prefixes, truncations, over-long strings; MIPS/PPC/AArch64 field grids; MIPS branch x delay-slot x buffer-length grid; 4 load addresses), thorough adds all ModRM/SIB forms and ALL 2^32 AArch64 words: never a panic/abort/hang, every Ok result well-sorted with exactly one enabled edge/successor under every guard valuation, and deterministic. Bytes outside the grids (for x86/MIPS/PPC) are not covered.",
   note="Trusted: harness validator. Hangs/aborts are attributed to one case by re-running the shard in trace mode."),
 "C20": dict(level="exploration", sec="3/C20", technique="exhaustive enumeration of the 7 architecture descriptors against a register universe obtained by exhaustively lifting every register-field value of representative encodings, and against transcribed psABI tables",
   text="All 7 architectures: every register the default calling convention names must be emitted by the translator with that width (universe = all scalars from lifting all 32 register numbers / all ModRM x REX forms), stack pointer, word size, endianness, argument order for n<16, stack-argument stride, return register, return address, preserved/trashed disjoint, sp preserved. The configuration space is finite and fully enumerated.",
   note="Trusted: psABI transcription for argument order/return conventions (harness tables). The base offset of the stack-argument area is not part of the statement and only reported."),
 "C06": dict(level="model_checking", sec="3/C06", technique="exhaustive enumeration of small machine-code programs x window alignments x entries x manual-edge sets; explicit lock-step comparison of the recovered CFG's executions with an instruction-at-a-time fetch-execute loop",
   text="For 7 translators: all programs of <=3 (thorough 4) instructions over {inc, nop, conditional branch to any index, jump to any index, return; on x86 also an instruction whose immediate is an overlapping instruction stream and branches into its middle} x both condition values x nop runs placing each position at window offsets 56..66 x entry at instruction 0/1 x 3 manual-edge sets; address traces, final registers, per-instruction IL counts, entry address, dangling edges and manual-edge presence compared. Larger programs and other instruction mixes are not covered.",
   note="Trusted: refil reference semantics; per-instruction meaning is taken from the lifter itself (single-instruction lifting), so only composition is judged."),
 "C01": dict(level="exploration", sec="3/C01", technique="exhaustive byte-grammar x boundary-state grid executed on the host CPU (native trampoline) and on the lifted IL under a reference interpreter; exhaustive within the stated grid, no sampling",
   text="Every encoding of the grammar [66/F2/F3][REX][all 1-byte/0F opcodes + 0F38/3A rows][ModRM/SIB forms: quick 14 forms, plus every /r in register, [rax] and [rbx+disp8] form for the opcode groups; thorough all 256 x 5 SIB][imm patterns] the lifter accepts, x the cross product of boundary values for every register the IL reads, flag valuations, memory patterns (21.6 M CPU executions in quick); GPRs, XMM, CF/ZF/SF/OF/DF, scratch memory, stack and next address compared. 32-bit mode through long-mode equivalent encodings. Segment, far, privileged and 32-bit stack instructions are not executed; values outside the alphabets are not covered.",
   note="Trusted: the host CPU, the trampoline/signal recovery, SDM undefined-flag masks, refil. Verdicts for behaviour the SDM leaves undefined are masked so they do not depend on the CPU vendor."),
 "C02": dict(level="exploration", sec="3/C02", technique="exhaustive instruction-word grid x boundary-state grid; lifted IL under a reference IL interpreter compared with reference MIPS32/Power ISA interpreters written from the manuals",
   text="MIPS (both endiannesses): every accepted opcode/funct/regimm x register roles with all aliasing x immediates x shift amounts, every branch x 8 delay-slot instructions; PPC: every accepted primary/extended opcode x roles x immediates x rlwinm SH/MB/ME cube x BO/BI; x boundary values for sources, HI/LO, CR/CTR/LR/CA, four alignments. GPRs, HI/LO, LR/CTR/CR/CA, memory, next PC and trap<->intrinsic compared. Values outside the alphabets are not covered.",
   note="Trusted: harness MIPS32 and Power ISA reference interpreters (manual transcriptions), refil. UNPREDICTABLE results are masked/skipped; accepted words the reference does not model are counted."),
 "C03": dict(level="exploration", sec="3/C03", technique="exhaustive instruction-word grid per A64 class x boundary-state grid; lifted IL under a reference IL interpreter compared with a reference A64 interpreter written from the Arm ARM pseudocode",
   text="Every control-field value of add/sub immediate/shifted/extended, MOV aliases, all load/store addressing modes incl. pairs, literal, acquire/release and SIMD&FP register forms, all branch kinds; register fields over {0,1,2,30,31} with aliasing; boundary immediates; boundary values squared, all 16 NZCV valuations for conditional branches, both data endiannesses; X0-X30, SP, NZCV, V0-V31, memory, next PC compared (28 k accepted words, 0.95 M states in quick). Values outside the alphabets are not covered.",
   note="Trusted: harness A64 reference interpreter (AddWithCarry, ShiftReg, ExtendReg, DecodeBitMasks), refil. CONSTRAINED UNPREDICTABLE forms skipped; accepted words the reference does not model are counted."),
 "C19": dict(level="exploration", sec="3/C19", technique="exhaustive lattice of abstract ELF images emitted by an independent ELF writer, loaded at several bases; oracle = the abstract description plus the base-0/base-B differential",
   text="All combinations of 7 class/endianness/machine targets x segment layouts (vaddr, filesz, memsz>filesz, 4 permission sets, second segment, interleaved non-load headers) x symbol sets (defined/undefined/zero-valued functions, objects, duplicates across symtab/dynsym, a PLT relocation) x entry choices x user entries x 5 bases (0, 2, 6, 0x10000, a far one): exact byte/permission/unmapped image, architecture, endianness, function-entry set, and uniform rebasing of sections, entries, symbols and program entry. ElfLinker (EM_386; EM_MIPS big and little endian with GOT entries and R_MIPS_REL32): 5 topologies of {main, libA.so, libB.so} x every assignment of {none, RELATIVE, {GLOB_DAT, JMP_SLOT, R_386_32} x every symbol of the link} to the relocation slots (1 per object, thorough 2/2/1), objects written to scratch files: every relocated word = base(definer)+value, every other byte = union of the objects' images. Symbol interposition order is not covered.",
   note="Trusted: harness ELF writer (independent of goblin). A link that returns an error is counted, not judged."),
}
NA = []
def main():
    checks=[]
    for pid in sorted(CHECKS):
        c=CHECKS[pid]
        checks.append({
          "property_id": pid,
          "quick_cmd": f"./check {pid} quick",
          "thorough_cmd": f"./check {pid} thorough",
          "evidence_file": f"/verif/evidence/{pid}.json",
          "replay_cmd_template": f"./check {pid} --replay {{path}}",
          "engine": "fv",
          "level_claimed": {"category": c["level"], "text": c["text"], "design_ref": c["sec"]},
          "level_note": c["note"],
          "technique": c["technique"],
        })
    m={
     "version":1,
     "setup_cmd":"cd /verif && ./check --build-only",
     "hooks":{"guard":"falcon_verif","enable":"no hooks are needed: every observation point is public API; RUSTFLAGS='--cfg falcon_verif' is reserved","baseline_off_cmd":"cd /repo && cargo test --workspace --no-fail-fast --offline","source_commits":[],"add_only":True},
     "engines":[{"name":"fv","path":"/verif/mc","serves_properties":sorted(CHECKS),"kind_free_text":"Rust harness linked against /repo (path dependency, rebuilt from the working tree): orderly enumerators, explicit-state explorers (hand-rolled BFS and stateright), reference models; worker sub-processes for isolation"}],
     "checks":checks,
     "notes":"Exit codes: 0 held (KNOWN-FINDING lines allowed), 1 VIOLATION, 2 machinery failure. known_findings.json lists recorded and fixed defects.",
     "not_applicable":NA,
    }
    json.dump(m,open('/verif/MANIFEST.json','w'),indent=1)
    try:
        import jsonschema
        jsonschema.validate(m,json.load(open('/root/.vp/MANIFEST.schema.json')))
        print("manifest valid,",len(checks),"checks")
    except ImportError:
        print("jsonschema missing; not validated")
main()
