#!/bin/bash
# seedtest.sh <patch> <tier> <id> [<id>...] : apply a seeded change to /repo, run the given checks, revert.
# Prints one line per check: "<id> exit=<code> violations=<n> first=<key>"
patch=$1; tier=$2; shift 2
cd /repo || exit 2
if ! git diff --quiet; then echo "repo dirty"; exit 2; fi
git apply "$patch" || { echo "patch does not apply"; exit 2; }
for id in "$@"; do
  out=$(cd /verif && ./check $id $tier 2>&1)
  code=$?
  n=$(echo "$out" | grep -c '^VIOLATION')
  first=$(echo "$out" | grep 'violation key' | head -2 | cut -c1-260 | tr '\n' ' ')
  echo "$id exit=$code violations=$n :: $first"
done
git -C /repo checkout -- . 
git -C /repo status --short | head -3
