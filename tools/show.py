#!/usr/bin/env python3
"""show.py <prop> <substring> [n] : print a few replay files whose key contains substring"""
import json,glob,sys
prop,sub=sys.argv[1],sys.argv[2]
n=int(sys.argv[3]) if len(sys.argv)>3 else 4
k=0
for p in sorted(glob.glob(f'/verif/replays/{prop}-*')):
    d=json.load(open(p))
    if sub not in d['key']: continue
    c=d['case']
    st=c.get('state') if isinstance(c,dict) else None
    extra=''
    if isinstance(st,dict) and 'gpr' in st:
        extra=' rfl=%s gpr=%s pat=%s'%(st['rflags'],','.join(x[2:] for x in st['gpr'][:8]),st.get('mem_pattern'))
        c={k2:v for k2,v in c.items() if k2!='state'}
    print(d['key']); print('   ',d['what'][:260]); print('   ',json.dumps(c)[:300]+extra)
    k+=1
    if k>=n: break
