#!/bin/bash
# seedconfirm5.sh <id> [<srcdir>] : confirm a fifth-wave seeded change in the scratch worktree /tmp/s5/<id>
# (created by `git worktree add`, removed by the caller): (1) the repository's suite passes with the change,
# (2) demo.rs fails with it, (3) demo.rs passes on the unchanged tree.
# Prints: "<id> suite=<ok|FAIL> demo_with=<fail|PASS?> demo_without=<pass|FAIL?>"
id=$1; src=${2:-/verif/seeded5/$id}
wt=/tmp/s5/$id
[ -d $wt ] || git -C /repo worktree add --detach -f $wt HEAD >/dev/null 2>&1 || { echo "$id worktree failed"; exit 2; }
cd $wt
export CARGO_NET_OFFLINE=true CARGO_TARGET_DIR=$wt/target
git checkout -- lib; rm -f tests/demo.rs
git apply $src/patch.diff || { echo "$id patch does not apply"; exit 2; }
suite=$(cargo test --offline 2>&1 | grep -E "^test result" | tr '\n' ' ')
case "$suite" in *"443 passed; 0 failed"*"2 passed; 0 failed"*) s=ok;; *) s="FAIL($suite)";; esac
mkdir -p tests; cp $src/demo.rs tests/demo.rs
if cargo test --offline --test demo >/tmp/s5/$id.with.log 2>&1; then w="PASS?"; else if grep -q "test result: FAILED" /tmp/s5/$id.with.log; then w=fail; else w="BUILD-ERROR?"; fi; fi
git checkout -- lib
if cargo test --offline --test demo >/tmp/s5/$id.without.log 2>&1; then wo=pass; else wo="FAIL?"; fi
echo "$id suite=$s demo_with=$w demo_without=$wo"
