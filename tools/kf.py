#!/usr/bin/env python3
"""kf.py fixed <text> | kf.py finding <property> <key> <what>  -- edits /verif/known_findings.json"""
import json,sys
p='/verif/known_findings.json'
k=json.load(open(p))
if sys.argv[1]=='fixed':
    k['fixed'].append(sys.argv[2])
elif sys.argv[1]=='finding':
    k['findings'].append({"property":sys.argv[2],"key":sys.argv[3],"what":sys.argv[4]})
json.dump(k,open(p,'w'),indent=1)
